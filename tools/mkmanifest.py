#!/usr/bin/env python3
"""Regenerates /verif/MANIFEST.json from the table below and validates it
against /root/.vp/MANIFEST.schema.json (when jsonschema is available)."""
import json
import os

VERIF = os.path.dirname(os.path.dirname(os.path.abspath(__file__)))

TECH = ('symbolic execution of the real Python code (CrossHair 0.0.110 + z3 '
        '5.1, all paths within stated bounds), counterexamples replayed '
        'natively')

TECH_K = (TECH + '; plus float conversion kernels read from /repo with ast, '
          'translated to z3 Float64 terms and decided by z3 for all finite '
          'doubles (vlib/kernelsmt.py), counterexamples replayed on the '
          'real methods')

CLAIMED = {
    'C01': dict(
        category='translation_validation',
        text=('Each program shape of a fixed catalogue (operators x operand '
              'types, builtins, conversions, IF/FOR/WHILE/DO/SELECT, '
              'GOTO/GOSUB, SUB/FUNCTION by-ref/by-value, recursion, arrays, '
              'records, CONST, SHARED/STATIC) is compiled by the real '
              'compiler and run on the real VM with SYMBOLIC variable '
              'values; device trace and outcome class are compared with a '
              'reference interpreter on every path.  "Holds" means: for all '
              'INTEGER/LONG values and all strings up to the stated length, '
              'for each listed shape and configuration - not for all '
              'programs.'),
        note=('Trusted: CrossHair/z3, the reference interpreter '
              'vlib/qbref.py (validated against concrete runs), the '
              'logging cut, PRINT number rendering abstracted (decided by '
              'C16/C17).  Floats are concrete only.'),
        design='DESIGN.md 4/C01'),
    'C02': dict(
        category='translation_validation',
        text=('Three families. (1) Folder vs machine: the real Expr.fold() '
              'of BinaryOp/UnaryOp over literals with SYMBOLIC INTEGER/LONG '
              'values is compared with the code the real code generator '
              'emits for the unfolded node executed by the real CPU '
              'instruction methods - for all operand values: folded => same '
              'type/value and encodable; run-time trap => not folded; '
              'fold() never raises. Float, bitwise, "/" and "^" operands '
              'are enumerated from a boundary table (said so in the '
              'evidence). (2) Peephole windows with symbolic operands: '
              'optimize() preserves stack, cells and control transfer. '
              '(3) Whole catalogue programs at two optimisation levels '
              'with symbolic inputs agree on trace and outcome.'),
        note=('Trusted: CrossHair/z3, direct dispatch of instruction tuples '
              'to QvmCpu._exec_* (assembler packing checked as a range '
              'condition). Family 4 (traced compile with symbolic literals) '
              'is not built.'),
        design='DESIGN.md 4/C02'),
    'C03': dict(
        technique=TECH_K,
        category='other',
        text=('A run-time monitor (machine-fault traps, typed reads, type '
              'stability of every storage cell, valid instruction starts, '
              'clean operand stack at every statement start of -g builds) '
              'is evaluated on EVERY path of each catalogue program under '
              'symbolic execution, i.e. for all input values and all '
              'execution paths of those programs; the type-pair catalogue '
              'enumerates every operator group x operand type pair, '
              'assignment/argument/condition/selector/index conversions.'),
        note=('Program shapes are a finite catalogue (not all programs); '
              'static abstract interpretation of emitted code is not a '
              'solver technique and is not built.'),
        design='DESIGN.md 4/C03'),
    'C04': dict(
        category='other',
        text=('(1) Layout lemmas: the real memlayout functions on real '
              'compilations (scalars, records, nested records, arrays of '
              'rank 1-3 of scalars and records; locals, parameters, SHARED, '
              'STATIC) with SYMBOLIC array lower bounds tile each frame / '
              'the global area exactly and agree with the emitted frame '
              'operands. (2) Element addressing: the real allocarr/arridx '
              'instructions with symbolic lower bounds and two symbolic '
              'index vectors give disjoint in-body cell ranges, or the '
              'subscript trap. (3) Sentinel programs (symbolic index / '
              'values, never-assigned neighbours, by-ref elements and '
              'fields, recursion, STATIC, SHARED) against the reference.'),
        note='rank <= 3, extents <= 4, element size <= 3, three layout '
             'programs; dynamic bounds only through concrete programs.',
        design='DESIGN.md 4/C04'),
    'C09': dict(
        category='other',
        text=('Operand codecs: a synthetic instruction list covering every '
              'operand kind through the real assembler with SYMBOLIC '
              'operands (incl. the 1-byte push encodings that shift later '
              'addresses): decoder, disassembler and listing agree and '
              'every label operand is an instruction start, for all operand '
              'values. Program images: all catalogue + extra programs x 6 '
              'configurations: sections recovered exactly, operands '
              'well-formed (native enumeration of concrete programs).'),
        note='Literal / DATA text is concrete (cp437 codec is C code).',
        design='DESIGN.md 4/C09'),
    'C10': dict(
        category='other',
        text=('Programs with an error handler (RESUME, RESUME NEXT, ON '
              'ERROR RESUME NEXT, GOTO 0, errors at expression depth / in '
              'procedures / in loop bodies / in the handler, several errors '
              'in sequence, falling off the end afterwards) compiled with '
              '-g at O0-O2, SYMBOLIC operands deciding which statements '
              'fail and how: trace and outcome equal the reference '
              'statement-level semantics on every path and the operand '
              'stack is clean at statement starts after every resumption.'),
        note='ERR values are qbee trap codes; resume semantics asserted '
             'for module-level statements only, as the property says.',
        design='DESIGN.md 4/C10'),
    'C11': dict(
        category='other',
        text=('For each catalogue program compiled with -g at O0-O2: '
              '(concrete structure) statement ranges lie on instruction '
              'boundaries, are laminar, every instruction of a routine body '
              'has an innermost statement whose line and source extract are '
              'on that line of the input, routine records cover exactly '
              'their code; (symbolic inputs, every path) find_stmt() at '
              'every io instruction and at the trap address names the line '
              'of the spec statement the reference interpreter is executing '
              '(the pretty-printer line table is the independent oracle).'),
        note='Literal-dependent instruction sizes only for the literals in '
             'the catalogue programs.',
        design='DESIGN.md 4/C11'),
    'C12': dict(
        category='other',
        text=('The real qvm.dbg.Cmd driven through onecmd() on catalogue '
              'programs with SYMBOLIC inputs (all branches the stepping '
              'logic meets, for all input values); command histories '
              'enumerated (all of length <= 2, sampled 3): transparency vs '
              'the free run, progress of step/next, next never deeper, '
              'repeated step visits the simple statements the reference '
              'executes in order, break L + continue stops exactly where '
              'and as often as prescribed, never after delbr.'),
        note='Histories and breakpoint lines are enumerated, not symbolic.',
        design='DESIGN.md 4/C12'),
    'C13': dict(
        category='other',
        text=('At every PRINT <expr> reached by stepping (main, SUB, '
              'FUNCTION, recursive frames; locals, by-ref parameters, '
              'STATIC, SHARED, CONST, elements with symbolic index, record '
              'and nested fields, operators) with SYMBOLIC variable values '
              'the real debugger print gives the value the program then '
              'prints (or both fail); VM state identical before/after; '
              'unknown names, bad subscripts/fields and malformed '
              'expressions give an error message, also after the program '
              'has finished.'),
        note='Expressions with function calls excluded (the debugger does '
             'not call functions); floats concrete.',
        design='DESIGN.md 4/C13'),
    'C07': dict(
        technique=TECH_K,
        category='other',
        text=('For each BASIC template feeding a builtin / operator / '
              'device statement, with all operands symbolic: on every path '
              'the real QvmCpu.run() returns without a host exception, '
              'halted by instruction, end of code or trap, and (where the '
              'reference has semantics) with the trap class of the cause; '
              'repeated with ON ERROR GOTO / RESUME NEXT armed and on the '
              'real dumb peripherals.'),
        note=('Interrupt timing (symbolic tick index) is covered by the '
              'interrupt family when present in evidence; SmartTerminal '
              'needs a subprocess and is outside.'),
        design='DESIGN.md 4/C07'),
    'C08': dict(
        category='translation_validation',
        text=('For each catalogue program and optimisation level the -g and '
              'non -g modules have byte-identical literal/data/global '
              'sections and, run with the same SYMBOLIC inputs, equal '
              'device trace and outcome on every path (implementation vs '
              'implementation). RESUME-executing programs are exempt.'),
        note='Program shapes = catalogue incl. the shape family.',
        design='DESIGN.md 4/C08'),
    'C15': dict(
        category='other',
        text=('Tokeniser: parse_data(s) equals a reference splitter for '
              'EVERY s over {a,1,blank,comma,quote,colon} up to the length '
              'bound (4 quick / 6 thorough). Cursor: enumerated DATA/label '
              'placements x enumerated READ/RESTORE sequences with SYMBOLIC '
              'item texts against a reference cursor (source order, per-'
              'type conversion, exhaustion, text into numeric).'),
        note=('The grammar-level re-joining of DATA clauses is inside '
              'pyparsing and only exercised with concrete layout texts.'),
        design='DESIGN.md 4/C15'),
    'C16': dict(
        category='other',
        text=('INTEGER/LONG part only. For all 2^16 / 2^32 values: the real '
              'format_number gives sign-or-blank + decimal digits '
              '(independent digit fold for all INTEGER and LONG up to 5 '
              'digits; against str(n) for all LONG), PRINT and STR$ agree, '
              'n and -n show the same digits. From the text side, for every '
              'well-formed text [ -]digits the real READ and INPUT code '
              'returns the denoted value or rejects it iff out of range, '
              'and formatting gives the text back. VAL on a boundary table. '
              'SINGLE/DOUBLE are outside the claim (no SMT theory of '
              'shortest-repr float rendering).'),
        note='Trusted: CrossHair model of str(int) and the int(str)/'
             'float(str) models of vlib/chfix.py; floats excluded.',
        design='DESIGN.md 4/C16'),
    'C17': dict(
        category='other',
        text=('The real TerminalDevice._exec_print is driven with the '
              'operand stack of the code generator\'s protocol for every '
              'item/separator sequence up to length 3 (sampled in quick) / '
              '4, item values symbolic (all INTEGER/LONG values, strings up '
              'to a bound incl. longer than a zone), against a reference '
              'layout written from the property statement.'),
        note='Float items are not symbolic; number digits are C16\'s '
             'subject.',
        design='DESIGN.md 4/C17'),
    'C18': dict(
        technique=TECH_K,
        category='other',
        text=('The real TerminalDevice._exec_input runs on a bare CPU with '
              'a SYMBOLIC response line (then a good one): for every line '
              'over the alphabet, prompts, "? ", "Redo from start", the '
              'acceptance decision, pushed values / cell types and that '
              'nothing is left on the operand stack match a reference from '
              'the property statement; plus INPUT programs followed by '
              'GOSUB/RETURN/SUB in the C01 catalogue.'),
        note='Alphabet {1 , - . blank x}; exponent forms and float values '
             'are not symbolic.',
        design='DESIGN.md 4/C18'),
    'C19': dict(
        category='other',
        text=('Family A: for EVERY format string over the alphabet up to '
              'length 4 (quick) / 6 the real PrintUsingFormatter is total, '
              'copies literals/escapes and prints & and ! fields as '
              'prescribed. Family B: one numeric field with symbolic '
              'structure between literal text, values from a boundary '
              'catalogue, equals a reference rendering.'),
        note='Values are sampled (digits come from C code); rounding ties '
             'excluded.',
        design='DESIGN.md 4/C19'),
}

CLAIMED['C06'] = dict(
    category='other',
    text=('Reduced scope: total in the literal VALUES of each statement '
          'form, not in the source texts.  Each of ~100 statement-form '
          'templates (assignment with every operator, CONST, DIM static / '
          'SHARED / STATIC / in SUB / records, FOR, IF, SELECT, DO, device '
          'statements, builtins, procedure calls) is parsed natively; its '
          'sentinel literals get SYMBOLIC values over the full range of '
          'INTEGER / LONG literals and the real Compiler.compile (three '
          'passes, folder, code generator, peephole optimiser) + '
          '__bytes__ + __str__ run symbolically: every path ends in a '
          'module that assembles and lists, or in a SyntaxError / '
          'CompileError with a position inside the text.'),
    note=('Source text is concrete (pyparsing cannot be executed '
          'symbolically), so grammar-level totality (token mutations, '
          'stray keywords) is NOT decided; literal values 0,1,2 and the '
          'bitwise-operator templates are native enumerations; the debug '
          'section serialiser (pickle/gzip, C code) is stubbed in symbolic '
          'runs and exercised natively.'),
    design='DESIGN.md 4/C06')

CLAIMED['C05'] = dict(
    category='other',
    text=('Reduced scope.  Solver-decided: static rules triggered by the '
          'VALUE of a literal (DIM bounds, arrays that do not fit a frame, '
          'CONST overflow / division by zero, negative constant bounds): '
          'the real compiler runs symbolically on the parsed template at '
          'three configurations and rejects exactly the values the rule '
          'rejects, with its category, at a position on the line of the '
          'construct; the literal rules (NumericLiteral.parse on every '
          'decimal digit string up to 8/10 digits); position plumbing on '
          'symbolic text.  NOT solver-decided (native enumeration, said so '
          'in the evidence): 28 type / label / arity / rank / declaration '
          '/ block-structure faults injected at 7 kinds of site x 6 '
          'configurations.'),
    note=('The property quantifies over programs x fault sites, i.e. over '
          'source texts, which go through pyparsing and cannot be made '
          'symbolic: "every rule at every site of every program" is NOT '
          'claimed.'),
    design='DESIGN.md A.5 and 4/C05')

NOT_APPLICABLE = {
    'C14': ('respelling invariance quantifies over source texts; the only '
            'code that distinguishes spellings is the pyparsing grammar, '
            'which cannot be executed symbolically (a 3-character symbolic '
            'source gives no verdict in 300 s), so no solver-decided check '
            'exists for it'),
    'C20': ('determinism over hash seeds / processes / wall clock lives '
            'below the Python semantics CrossHair and z3 model; symbolic '
            'execution of the same code twice is deterministic by '
            'construction, so there is no variable to make symbolic'),
}

PENDING_REASON = ('not claimed: what a solver can decide here (value-'
                  'triggered static rules: DIM bounds, CONST values, frame '
                  'sizes with symbolic literals) is covered under C06 with '
                  'the same machinery; the rule catalogue itself (type / '
                  'arity / block-structure faults injected at sites of '
                  'arbitrary texts) quantifies over source texts, which go '
                  'through pyparsing and cannot be made symbolic - see '
                  'DESIGN.md section 5')


def main():
    props = [json.loads(l) for l in open(os.path.join(VERIF,
                                                      'properties.jsonl'))]
    checks = []
    na = []
    for p in props:
        pid = p['id']
        if pid in CLAIMED:
            c = CLAIMED[pid]
            checks.append({
                'property_id': pid,
                'quick_cmd': './vcheck %s --tier quick' % pid,
                'thorough_cmd': './vcheck %s --tier thorough' % pid,
                'evidence_file': 'evidence/%s.json' % pid,
                'replay_cmd_template': './vcheck %s --replay {path}' % pid,
                'engine': 'crosshair+z3',
                'level_claimed': {'category': c['category'],
                                  'text': c['text'],
                                  'design_ref': c['design']},
                'level_note': c['note'],
                'technique': c.get('technique', TECH),
            })
        elif pid in NOT_APPLICABLE:
            na.append({'property_id': pid, 'reason': NOT_APPLICABLE[pid]})
        else:
            na.append({'property_id': pid, 'reason': PENDING_REASON})
    manifest = {
        'version': 1,
        'setup_cmd': 'python3 vlib/bootstrap.py',
        'hooks': {
            'guard': 'QBEE_VERIF',
            'enable': ('no source hooks are needed: all adaptation happens '
                       'at import time inside the harness process '
                       '(vlib/striplog.py, vlib/chfix.py)'),
            'baseline_off_cmd': ('cd /repo && /venv/bin/python -m pytest -q '
                                 '-p no:cacheprovider --timeout=900'),
            'source_commits': [],
            'add_only': True,
        },
        'engines': [
            {'name': 'crosshair+z3', 'path': 'vlib/',
             'serves_properties': sorted(CLAIMED),
             'kind_free_text': ('CrossHair symbolic execution of the real '
                                'qbee/qvm Python code with adaptations '
                                '(vlib/chfix.py), z3 deciding every branch; '
                                'kernelsmt (vlib/kernelsmt.py): own '
                                'Python-AST -> z3 Float64 translator for the '
                                'float -> INTEGER/LONG conversion kernels '
                                'and the SINGLE range check (C03, C07, '
                                'C18)')},
        ],
        'checks': checks,
        'not_applicable': na,
        'notes': ('fix: commits in /repo and known findings are listed in '
                  'known_findings.json; see DESIGN.md section 6'),
    }
    path = os.path.join(VERIF, 'MANIFEST.json')
    json.dump(manifest, open(path, 'w'), indent=1)
    try:
        import jsonschema
        schema = json.load(open('/root/.vp/MANIFEST.schema.json'))
        jsonschema.validate(manifest, schema)
        print('MANIFEST.json valid; claimed=%d not_applicable=%d' % (
            len(checks), len(na)))
    except ImportError:
        print('MANIFEST.json written (jsonschema not available)')


if __name__ == '__main__':
    main()
