#!/bin/sh
# usage: par_seed.sh <seed-name> <property> [tier]
# Like try_seed.sh but leaves /repo and /verif alone: the patch is applied
# in a scratch worktree of /repo HEAD and the check runs from a scratch copy
# of /verif (own .venv whose .pth points at the worktree; QBEE_REPO).
SEED=$1; PROP=$2; TIER=${3:-quick}
WT=/tmp/ps_${SEED}_$PROP; V=/tmp/pv_${SEED}_$PROP
rm -rf $V; git -C /repo worktree remove --force $WT 2>/dev/null
git -C /repo worktree add -q --detach $WT HEAD || exit 3
git -C $WT apply /verif/seeded/$SEED/patch.diff || { echo "patch does not apply"; git -C /repo worktree remove --force $WT; exit 3; }
mkdir -p $V && rsync -a --exclude .venv --exclude build --exclude .git --exclude __pycache__ /verif/ $V/
cd $V && QBEE_REPO=$WT VERIF_JOBS=${VERIF_JOBS:-8} ./vcheck $PROP --tier $TIER > /tmp/parseed_${SEED}_${PROP}.log 2>&1
RC=$?
echo "seed=$SEED prop=$PROP tier=$TIER rc=$RC"
grep -E "^VIOLATION|^HARNESS-ERROR|tier=" /tmp/parseed_${SEED}_${PROP}.log | head -6
cd /; rm -rf $V; git -C /repo worktree remove --force $WT
exit 0
