#!/bin/sh
# usage: try_seed.sh <seed-name> <property> [tier]
# Applies /verif/seeded/<seed>/patch.diff to /repo, runs the check, reverts.
SEED=$1; PROP=$2; TIER=${3:-quick}
cd /repo || exit 3
if ! git diff --quiet; then echo "/repo has uncommitted changes"; exit 3; fi
git apply /verif/seeded/$SEED/patch.diff || { echo "patch does not apply"; exit 3; }
cd /verif
./vcheck $PROP --tier $TIER > /tmp/tryseed_${SEED}_${PROP}.log 2>&1
RC=$?
git -C /repo checkout -- .
echo "seed=$SEED prop=$PROP tier=$TIER rc=$RC"
grep -E "^VIOLATION|^HARNESS-ERROR|tier=" /tmp/tryseed_${SEED}_${PROP}.log | head -8
exit 0
