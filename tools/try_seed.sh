#!/bin/sh
# usage: try_seed.sh <seed-name> <property> [tier]
# Applies /verif/seeded/<seed>/patch.diff to /repo, runs the check, reverts.
SEED=$1; PROP=$2; TIER=${3:-quick}
cd /repo || exit 3
if ! git diff --quiet; then echo "/repo has uncommitted changes"; exit 3; fi
git apply /verif/seeded/$SEED/patch.diff || { echo "patch does not apply"; exit 3; }
cd /verif
# the evidence file must describe the unchanged tree: keep it aside
cp evidence/$PROP.json /tmp/tryseed_evid_$PROP.json 2>/dev/null
./vcheck $PROP --tier $TIER > /tmp/tryseed_${SEED}_${PROP}.log 2>&1
RC=$?
git -C /repo checkout -- .
cp evidence/$PROP.json /tmp/tryseed_${SEED}_${PROP}.evidence.json 2>/dev/null
if [ -f /tmp/tryseed_evid_$PROP.json ]; then mv /tmp/tryseed_evid_$PROP.json evidence/$PROP.json; fi
echo "seed=$SEED prop=$PROP tier=$TIER rc=$RC"
grep -E "^VIOLATION|^HARNESS-ERROR|tier=" /tmp/tryseed_${SEED}_${PROP}.log | head -8
exit 0
