#!/bin/sh
# usage: run_all.sh [tier] [props...]  -- runs the registered checks one after another against /repo
TIER=${1:-quick}; shift
PROPS=${*:-C01 C02 C03 C04 C05 C06 C07 C08 C09 C10 C11 C12 C13 C15 C16 C17 C18 C19}
cd /verif
mkdir -p /tmp/runall
for P in $PROPS; do
  [ -f props/$(echo $P | tr A-Z a-z).py ] || continue
  S=$(date +%s)
  ./vcheck $P --tier $TIER > /tmp/runall/$P.$TIER.log 2>&1
  RC=$?
  echo "$P tier=$TIER rc=$RC wall=$(( $(date +%s) - S ))s $(grep -c '^VIOLATION' /tmp/runall/$P.$TIER.log) violations"
done
