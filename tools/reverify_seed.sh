#!/bin/sh
# usage: reverify_seed.sh <name>   -- re-confirm a kept seed against /repo HEAD
NAME=$1
WT=/tmp/reseed_$NAME
cd /repo && git worktree add -q --detach $WT HEAD || exit 3
cd $WT
mkdir -p _seed && cp /verif/seeded/$NAME/demo.py _seed/demo.py
/venv/bin/python _seed/demo.py > /tmp/reseed_$NAME.without 2>&1; RC_WITHOUT=$?
if git apply /verif/seeded/$NAME/patch.diff; then
  /venv/bin/python _seed/demo.py > /tmp/reseed_$NAME.with 2>&1; RC_WITH=$?
  /venv/bin/python -m pytest -q -p no:cacheprovider --timeout=900 -q > /tmp/reseed_$NAME.tests 2>&1; RC_TESTS=$?
  echo "$NAME applies=yes demo_with=$RC_WITH demo_without=$RC_WITHOUT tests_rc=$RC_TESTS"
else
  echo "$NAME applies=NO"
fi
cd /repo && git worktree remove --force $WT
