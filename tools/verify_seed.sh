#!/bin/sh
# usage: verify_seed.sh <worktree> <name>
# Confirms in the scratch worktree: demo fails with the change, passes
# without; full test suite passes with the change.  Copies artefacts to
# /verif/seeded/<name>/.
WT=$1; NAME=$2
set -e
cd $WT
mkdir -p /verif/seeded/$NAME
git diff -- qbee qvm > /verif/seeded/$NAME/patch.diff
cp _seed/demo.py /verif/seeded/$NAME/demo.py
cp _seed/notes.md /verif/seeded/$NAME/notes.md 2>/dev/null || true
set +e
/venv/bin/python _seed/demo.py > /tmp/seedlog_$NAME.with 2>&1; RC_WITH=$?
# (no git stash: refs/stash is shared by all worktrees of /repo)
git apply -R /verif/seeded/$NAME/patch.diff
/venv/bin/python _seed/demo.py > /tmp/seedlog_$NAME.without 2>&1; RC_WITHOUT=$?
git apply /verif/seeded/$NAME/patch.diff
/venv/bin/python -m pytest -q -p no:cacheprovider --timeout=900 -q > /tmp/seedlog_$NAME.tests 2>&1; RC_TESTS=$?
echo "$NAME demo_with=$RC_WITH demo_without=$RC_WITHOUT tests_rc=$RC_TESTS $(tail -1 /tmp/seedlog_$NAME.tests)"
