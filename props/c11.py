"""C11 -- the debug map attributes every instruction to its source
statement."""
import props.catalog_all  # noqa: F401
from vlib import harness as H
from vlib.runner import run_property
from props.common import (cell_obligations, select_cells, rot, seed,
                          COMMON_ASSUMPTIONS, REAL_FUNCTIONS)
from props import findings


def check_call(cell, cfg, args):
    a = (', ' + args) if args else ''
    return 'H.check_dbgmap(%r, %d%s)' % (cell.cid, cfg, a)


def generate(tier):
    cells = select_cells('C11', tier,
                         [c for c in H.CATALOG.values() if c.ref], 3)
    if tier == 'quick':
        cfgs = lambda c: [3 + rot(c.cid, seed() + 9, 3)]  # noqa: E731
        timeout = 120
    else:
        cfgs = lambda c: [3, 4, 5]  # noqa: E731
        timeout = 400
    obls = cell_obligations('C11', 'c11_obl', check_call, cells, cfgs,
                            timeout)
    # the line every debug record carries comes from this function
    from props import c05
    from vlib.runner import HarnessWriter
    w = HarnessWriter('c11_pos', c05.HEADER)
    obls.append(c05.line_col_obligation(w, tier == 'quick', 'build.c11_pos'))
    w.write()
    return obls


def run(tier):
    obls = generate(tier)
    return run_property(
        'C11', tier, 'other', obls,
        explanation=(
            'For each catalogue program compiled with -g: (structure, '
            'concrete) every statement range starts and ends on decoded '
            'instruction boundaries, ranges are laminar, every instruction '
            'of a routine body lies in an innermost statement whose '
            'recorded line and source extract are on that line of the '
            'input, every routine record covers exactly its code; (run '
            'time, SYMBOLIC inputs, every path) find_stmt() at every io '
            'instruction names the line of the spec statement the reference '
            'interpreter is executing when it produces that interaction '
            '(the pretty-printer\'s line table is the independent oracle), '
            'and find_stmt(trapped_addr) names the failing statement\'s '
            'line.'),
        assumptions=COMMON_ASSUMPTIONS + [
            'operand-dependent instruction sizes are covered for the '
            'literal values occurring in the catalogue programs only '
            '(symbolic push operands through optimize()/assembled are not '
            'built for this property; C09 covers the assembler for all '
            'operand values)'],
        functions=REAL_FUNCTIONS + [
            'qvm.debug_info.DebugInfoCollector/DebugInfo.add_node/finalize/'
            'find_stmt', 'qbee.codegen.BaseCodeGen.start_dbg_info/'
            'end_dbg_info', 'qbee.utils.convert_index_to_line_col'],
        bounds={'programs': len(obls)},
        known_witnesses=findings.witnesses('C11'),
    )
