"""C15 harness functions: DATA tokeniser and READ/RESTORE cursor."""
from vlib import symqvm
from vlib.symqvm import (compile_program, SymImpl, make_machine, run_machine,
                         HaltReason, TrapCode, CellType)
from qbee.utils import parse_data, Empty

ALPHA = 'a1 ,":'


# ---------------------------------------------------------------- tokeniser
def ref_split(s):
    """Reference splitter written from the property statement: items are
    separated at commas outside quotes; an item that starts (after blanks)
    with a quote runs verbatim to the closing quote (or to the end of the
    text) and may be followed only by blanks; any other item is trimmed of
    surrounding blanks; an item with nothing in it is empty."""
    items = []
    n = len(s)
    i = 0
    while True:
        while i < n and s[i] == ' ':
            i += 1
        if i < n and s[i] == '"':
            j = i + 1
            while j < n and s[j] != '"':
                j += 1
            items.append(('q', s[i + 1:j]))
            if j >= n:            # unterminated: runs to the end
                return items
            i = j + 1
            while i < n and s[i] == ' ':
                i += 1
            if i >= n:
                return items
            if s[i] != ',':
                return None       # text after a closing quote
            i += 1
            continue
        j = i
        while j < n and s[j] != ',':
            j += 1
        text = s[i:j]
        k = len(text)
        while k > 0 and text[k - 1] == ' ':
            k -= 1
        text = text[:k]
        items.append(('e', None) if len(text) == 0 else ('u', text))
        if j >= n:
            return items
        i = j + 1


def _same_items(real, ref):
    if real is None or ref is None:
        return real is None and ref is None
    if len(real) != len(ref):
        return False
    for r, (kind, text) in zip(real, ref):
        if kind == 'e':
            if r is not Empty.value:
                return False
        else:
            if r is Empty.value:
                return False
            if r != text:
                return False
    return True


def _tok(s):
    return 1 if _same_items(parse_data(s), ref_split(s)) else 0


def tok4(s: str) -> int:
    """
    pre: len(s) <= 4 and all(c in 'a1 ,":' for c in s)
    post: _ != 0
    """
    return _tok(s)


def tok4_twin(s: str) -> int:
    """
    pre: len(s) <= 4 and all(c in 'a1 ,":' for c in s)
    post: _ != 1
    """
    return _tok(s)


def tok5(s: str) -> int:
    """
    pre: len(s) == 5 and all(c in 'a1 ,":' for c in s)
    post: _ != 0
    """
    return _tok(s)


def tok5_twin(s: str) -> int:
    """
    pre: len(s) == 5 and all(c in 'a1 ,":' for c in s)
    post: _ != 1
    """
    return _tok(s)


def tok6(s: str) -> int:
    """
    pre: len(s) == 6 and all(c in 'a1 ,":' for c in s)
    post: _ != 0
    """
    return _tok(s)


def tok6_twin(s: str) -> int:
    """
    pre: len(s) == 6 and all(c in 'a1 ,":' for c in s)
    post: _ != 1
    """
    return _tok(s)


# ------------------------------------------------------------------- cursor
# A layout is a list of source lines; DATA items are placeholders i0, i1...
# whose loaded text is replaced by symbolic strings after loading.
# ops: ('r', type_char) READ into a fresh variable and PRINT it;
#      ('R', label|None) RESTORE [label]

LAYOUTS = {
    'top2_lab1': ['DATA i0, i1', 'lab1:', 'DATA i2', '@OPS@'],
    'after_code': ['@OPS@', 'END', 'DATA i0', 'lab1:', 'DATA i1, i2'],
    'between': ['lab0:', 'DATA i0', 'PRINT "#"', 'DATA i1', 'lab1:',
                'DATA i2', '@OPS@'],
    'lab_no_data': ['DATA i0', 'lab1:', 'PRINT "#"', 'lab2:', 'DATA i1, i2',
                    '@OPS@'],
    'two_labels': ['DATA i0', 'lab1:', 'lab2:', 'DATA i1', 'DATA i2',
                   '@OPS@'],
    'after_sub': ['@OPS@', 'END', 'SUB foo', 'END SUB', 'DATA i0', 'lab1:',
                  'DATA i1, i2'],
    'label_after_all': ['DATA i0, i1', 'DATA i2', '@OPS@', 'END', 'lab9:',
                        'PRINT "#"'],
    'label_after_all2': ['DATA i0', 'lab1:', 'DATA i1, i2', '@OPS@', 'END',
                         'lab9:'],
}
# for each layout: ordered item list and, per label, index of the first item
# of the first DATA statement at or after the label (source order)
LAYOUT_LABELS = {
    'top2_lab1': {'lab1': 2},
    'after_code': {'lab1': 1},
    'between': {'lab0': 0, 'lab1': 2},
    'lab_no_data': {'lab1': 1, 'lab2': 1},
    'two_labels': {'lab1': 1, 'lab2': 1},
    'after_sub': {'lab1': 1},
    'label_after_all': {'lab9': 3},
    'label_after_all2': {'lab1': 1, 'lab9': 3},
}

SEQS = {
    's_rrr': [('r', '$'), ('r', '$'), ('r', '$')],
    's_rRr': [('r', '$'), ('R', None), ('r', '$')],
    's_rrRl1r': [('r', '$'), ('r', '$'), ('R', 'lab1'), ('r', '$')],
    's_Rl1rrr': [('R', 'lab1'), ('r', '$'), ('r', '$'), ('r', '$')],
    's_rrrr': [('r', '$'), ('r', '$'), ('r', '$'), ('r', '$')],
    's_int': [('r', '%'), ('r', '&'), ('r', '$')],
    's_int_R': [('r', '%'), ('R', None), ('r', '&'), ('r', '%')],
    's_Rl2': [('r', '$'), ('R', 'lab2'), ('r', '$'), ('r', '$')],
    's_Rl0': [('r', '$'), ('r', '$'), ('R', 'lab0'), ('r', '$')],
    's_rRl9r': [('r', '$'), ('R', 'lab9'), ('r', '$')],
    's_Rl9Rr': [('R', 'lab9'), ('R', None), ('r', '$'), ('r', '$')],
}


def program_text(layout, seq):
    ops = []
    n = 0
    for op in SEQS[seq]:
        if op[0] == 'r':
            v = 'v%d%s' % (n, op[1])
            n += 1
            ops.append('READ %s' % v)
            ops.append('PRINT %s' % v)
        else:
            ops.append('RESTORE' + (' ' + op[1] if op[1] else ''))
    lines = []
    for ln in LAYOUTS[layout]:
        if ln == '@OPS@':
            lines.extend(ops)
        else:
            lines.append(ln)
    return '\n'.join(lines) + '\n'


def applicable(layout, seq):
    for op in SEQS[seq]:
        if op[0] == 'R' and op[1] and op[1] not in LAYOUT_LABELS[layout]:
            return False
    return True


def _numeric_value(text):
    """Reference: value of a DATA text read into an integral variable, or
    None when the text is not a number.  Grammar used: optional '-', digits
    with at most one '.', at least one digit.  (Alphabet of symbolic items:
    1 2 - . x)"""
    n = len(text)
    i = 0
    neg = False
    if i < n and text[i] == '-':
        neg = True
        i += 1
    ip = 0
    nd = 0
    while i < n and 48 <= ord(text[i]) <= 57:
        ip = ip * 10 + (ord(text[i]) - 48)
        nd += 1
        i += 1
    frac_digits = []
    if i < n and text[i] == '.':
        i += 1
        while i < n and 48 <= ord(text[i]) <= 57:
            frac_digits.append(ord(text[i]) - 48)
            nd += 1
            i += 1
    if i != n or nd == 0:
        return None
    # round half to even on the decimal fraction
    num = 0
    den = 1
    for d in frac_digits:
        num = num * 10 + d
        den *= 10
    v = ip
    if 2 * num > den or (2 * num == den and ip % 2 == 1):
        v += 1
    return -v if neg else v


def cursor(layout, seq, cfg, items, decimal_ok=True):
    """Run the real program with DATA item texts replaced by `items`
    (symbolic) and compare with the reference cursor."""
    src = program_text(layout, seq)
    opt, dbg = symqvm.CONFIGS[cfg]
    _, _, module = compile_program(src, opt, dbg)
    # substitute the loaded item texts (after the parser)
    new_data = []
    for part in module.data:
        np_ = []
        for it in part:
            assert it[0] == 'i' and it[1:].isdigit(), it
            np_.append(items[int(it[1:])])
        new_data.append(np_)
    import copy
    m2 = copy.copy(module)
    m2.data = new_data
    impl = SymImpl()
    machine = make_machine(m2, impl)
    out = run_machine(machine, 400, catch_host_exc=True)
    if out.exc is not None:
        return 0
    # reference
    exp = []
    pos = 0
    err = None
    for op in SEQS[seq]:
        if op[0] == 'R':
            pos = 0 if op[1] is None else LAYOUT_LABELS[layout][op[1]]
            continue
        if pos >= len(items):
            err = 'outofdata'
            break
        text = items[pos]
        pos += 1
        if op[1] == '$':
            exp.append(text)
        else:
            v = _numeric_value(text)
            if v is None:
                err = 'notnumber'
                break
            lo, hi = (-32768, 32767) if op[1] == '%' else \
                (-2147483648, 2147483647)
            if v < lo or v > hi:
                err = 'overflow'
                break
            exp.append(v)
    # compare
    got = [e for e in impl.trace if e[0] == 'terminal' and e[1] == 'print'
           and e[2] != '#\r\n']
    if len(got) != len(exp):
        return 0
    for e, x in zip(got, exp):
        if isinstance(x, int):
            want = (' ' if x >= 0 else '') + str(x) + ' \r\n'
        else:
            want = x + '\r\n'
        if e[2] != want:
            return 0
    if err is None:
        return 1 if out.halt == HaltReason.INSTRUCTION else 0
    if out.halt != HaltReason.TRAP:
        return 0
    if err == 'overflow':
        return 1 if out.trap in (TrapCode.INVALID_CELL_VALUE,
                                 TrapCode.DEVICE_ERROR) else 0
    return 1 if out.trap == TrapCode.DEVICE_ERROR else 0
