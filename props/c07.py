"""C07 -- the VM is total: every run ends in a halt or a trap."""
import props.catalog_all  # noqa: F401
from vlib import harness as H
from vlib.runner import run_property
from props.common import (cell_obligations, rot, seed, COMMON_ASSUMPTIONS,
                          REAL_FUNCTIONS)
from props import findings


def check_call(cell, cfg, args):
    a = (', ' + args) if args else ''
    return 'H.check_total(%r, %d%s)' % (cell.cid, cfg, a)


def generate(tier):
    cells = [c for c in H.CATALOG.values()
             if 'vm' in c.tags or 'arith' in c.tags or c.family in (
                 'string', 'builtin', 'array', 'conv')]
    if tier == 'quick':
        cfgs = lambda c: [rot(c.cid, seed() + 7, 6)]  # noqa: E731
        timeout = 90
    else:
        cfgs = lambda c: [0, 2, 5]  # noqa: E731
        timeout = 240
    from props import ob_kernel
    return cell_obligations('C07', 'c07_obl', check_call, cells, cfgs,
                            timeout) + ob_kernel.obligations(
        ['kernel_translator_validation', 'kernel_single_can_hold',
         'kernel_conv_integer', 'kernel_conv_long'])


def run(tier):
    obls = generate(tier)
    return run_property(
        'C07', tier, 'other', obls,
        explanation=(
            'For each BASIC template that feeds an instruction / builtin / '
            'device statement (reached through the public compile+run API), '
            'with all operands SYMBOLIC: on every path the real '
            'QvmCpu.run() returns (no host exception escapes tick()), the '
            'machine is halted by instruction, end of code or a trap, and '
            'for templates with reference semantics the trap class equals '
            'the cause the reference assigns (division by zero, overflow, '
            'subscript, illegal argument, device error).'),
        assumptions=COMMON_ASSUMPTIONS,
        functions=REAL_FUNCTIONS,
        bounds={'templates': len(obls)},
        known_witnesses=findings.witnesses('C07'),
    )
