"""C08 -- debug information does not change what a program does."""
import props.catalog_all  # noqa: F401
from vlib import harness as H
from vlib.runner import run_property
from props.common import (cell_obligations, select_cells, rot, seed, COMMON_ASSUMPTIONS,
                          REAL_FUNCTIONS)
from props import findings


def check_call(cell, cfg, args):
    a = (', ' + args) if args else ''
    return 'H.check_dbg_pair(%r, %d%s)' % (cell.cid, int(cfg[1:]), a)


def generate(tier):
    cells = select_cells('C08', tier, [c for c in H.CATALOG.values()
                                       if 'resume' not in c.tags], 4)
    if tier == 'quick':
        cfgs = lambda c: ['O%d' % rot(c.cid, seed() + 8, 3)]  # noqa: E731
        timeout = 90
    else:
        cfgs = lambda c: ['O0', 'O1', 'O2', 'O3']  # noqa: E731
        timeout = 240
    return cell_obligations('C08', 'c08_obl', check_call, cells, cfgs,
                            timeout)


def run(tier):
    obls = generate(tier)
    return run_property(
        'C08', tier, 'translation_validation', obls,
        explanation=(
            'For each catalogue cell and optimisation level, the module '
            'compiled with -g and the one without are both run on the real '
            'VM with the same SYMBOLIC inputs; literal/data/global sections '
            'must be byte-identical and device trace + outcome equal on '
            'every path (implementation vs implementation, no reference '
            'model).  Programs executing RESUME are exempt as the property '
            'allows.'),
        assumptions=COMMON_ASSUMPTIONS,
        functions=REAL_FUNCTIONS + [
            'qbee.codegen.BaseCodeGen.start_dbg_info/end_dbg_info',
            'qbee.qvm_codegen.QvmCode.optimize (marker handling)'],
        bounds={'program_shapes': len(H.CATALOG),
                'levels': '1 rotating level per cell (quick) / O0-O3 '
                          '(thorough)'},
        known_witnesses=findings.witnesses('C08'),
    )
