"""Statement shapes singled out by C08/C11/C12: empty bodies, single-line IF
with ELSE, nested SELECT, empty loops and procedures, several statements per
line, adjacent jump statements around labels, line numbers."""
from vlib.qbspec import Sub
from props.catalog import (mk, B, U, F, P, L, I, LG, S, var)  # noqa


def sh(cid, names, body, **kw):
    kw.setdefault('family', 'shape')
    return mk(cid, names, body, tags=('shapes',), **kw)


sh('sh_empty_if', ['a%'],
   [('if', [(B('>', var('a%'), I(0)), [])], None),
    ('if', [(B('>', var('a%'), I(0)), []),
            (B('<', var('a%'), I(0)), [])], []),
    ('if', [(B('=', var('a%'), I(1)), [P(S('one'))]),
            (B('=', var('a%'), I(2)), [])], [P(S('other'))]),
    P(S('done'))])
sh('sh_empty_else_only', ['a%'],
   [('if', [(var('a%'), [P(S('t'))])], []), P(S('done'))])
sh('sh_if1_else_jumps', ['a%'],
   [('if1', var('a%'), [('goto', 'yes')], [('goto', 'no')]),
    ('label', 'yes'), P(S('yes')), ('goto', 'fin'),
    ('label', 'no'), P(S('no')),
    ('label', 'fin'), P(S('fin'))])
sh('sh_nested_select', ['a%', 'b%'],
   [('select', var('a%'),
     [([('eq', I(1))],
       [('select', var('b%'),
         [([('eq', I(1))], [P(S('1-1'))]),
          ([('eq', I(2))], [])],
         [P(S('1-x'))])]),
      ([('eq', I(2))], [])],
     []),
    P(S('done'))])
sh('sh_select_only_else', ['a%'],
   [('select', var('a%'), [], [P(S('else'))]), P(S('done'))],
   note='SELECT with only CASE ELSE')
sh('sh_empty_loops', ['a%'],
   [('for', var('i%'), I(1), var('a%'), None, []),
    ('while', B('>', var('a%'), I(100)), []),
    ('do', 'loop_until', B('>=', var('i%'), I(0)), []),
    P(var('i%'))], pre='x0 <= 3', budget=700)
sh('sh_empty_procs', ['a%'],
   [('callsub', 'nothing', []), P(('call', 'zero%', [])),
    ('callsub', 'nothing', []), P(var('a%'))],
   subs=[Sub('nothing', 'sub', [], []),
         Sub('zero%', 'function', [], [])])
sh('sh_multi_stmt_line', ['a%'],
   [('line', [L(var('b%'), B('+', var('a%'), I(1))), P(var('b%')),
              L(var('b%'), B('*', var('b%'), I(2))), P(var('b%'))]),
    ('line', [P(S('x')), P(S('y'))]), P(S('z'))],
   pre='-1000 <= x0 <= 1000')
sh('sh_gosub_stubs', ['a%'],
   [('gosub', 'first'), ('gosub', 'second'), ('gosub', 'third'),
    P(S('end')), ('end',),
    ('label', 'first'), P(S('first')), ('return',),
    ('label', 'second'), ('return',),
    ('label', 'third'), P(S('third'), ';', var('a%')), ('return',)])
sh('sh_goto_after_goto', ['a%'],
   [('goto', 'main'),
    ('label', 'bye'), ('goto', 'finish'),
    ('label', 'main'), P(S('main')),
    ('if1', B('>', var('a%'), I(0)), [('goto', 'bye')], None),
    P(S('skip')),
    ('label', 'finish'), P(S('finish'))])
sh('sh_jump_table', ['a%'],
   [('if1', B('=', var('a%'), I(1)), [('goto', 10)], None),
    ('if1', B('=', var('a%'), I(2)), [('goto', 20)], None),
    ('goto', 300),
    ('lineno', 10), ('goto', 100),
    ('lineno', 20), ('goto', 200),
    ('lineno', 100), P(S('one hundred')), ('goto', 300),
    ('lineno', 200), P(S('two hundred')),
    ('lineno', 300), P(S('end'))])
sh('sh_exit_after_jump', ['a%'],
   [('for', var('i%'), I(1), I(3), None,
     [('if1', B('=', var('i%'), var('a%')), [('exit', 'for')], None),
      ('do', 'forever', None, [('exit', 'do')]),
      P(var('i%'))]),
    ('callsub', 'early', [var('a%')]), P(S('end'))],
   subs=[Sub('early', 'sub', [('x%', None)],
             [('if1', B('>', var('x%'), I(1)), [('exit', 'sub')], None),
              P(S('in sub'))])], budget=900)
sh('sh_end_in_middle', ['a%'],
   [('if1', B('>', var('a%'), I(0)), [('end',)], None),
    P(S('after')), ('end',), P(S('unreachable'))])
sh('sh_code_after_end_label', ['a%'],
   [('if1', B('>', var('a%'), I(0)), [('goto', 'late')], None),
    P(S('early')), ('end',),
    ('label', 'late'), P(S('late'))])

# procedures defined ABOVE the module-level code: code address order then
# differs from source order (module-level code is always emitted first)
sh('sh_procs_first', ['a%'],
   [P(S('start')),
    ('callsub', 'show', [var('a%')]),
    ('gosub', 'tail'),
    P(('call', 'inc%', [var('a%')])),
    ('if1', B('>', var('a%'), I(0)), [P(S('pos'))], [P(S('nonpos'))]),
    P(S('end')), ('end',),
    ('label', 'tail'), P(S('tail')), ('return',)],
   subs=[Sub('show', 'sub', [('v%', None)],
             [P(S('show')), P(var('v%'))]),
         Sub('inc%', 'function', [('v%', None)],
             [('setret', B('+', B('MOD', var('v%'), I(100)), I(1)))])],
   subs_first=True, budget=600)

# a block IF (no ELSE / empty ELSE) immediately followed by empty-bodied
# blocks whose HEADERS generate code that can fail: the header code must be
# attributed to the header line, not to the closing line of the block
sh('sh_if_then_empty_blocks', ['a%', 'b%'],
   [('if', [(B('>', var('a%'), I(100)), [P(S('big'))])], None),
    ('while', B('>', B('\\', var('b%'), var('a%')), I(50)), []),
    ('if', [(B('<', var('a%'), I(0)), [])], []),
    ('for', var('i%'), I(1), B('\\', I(3), var('a%')), None, []),
    ('if', [(B('=', var('a%'), I(7)), [P(S('seven'))])], []),
    ('do', 'do_until', B('>=', B('\\', I(9), var('a%')), U('-', I(9))), []),
    P(S('end'), ';', var('i%'))],
   pre='-3 <= x0 <= 300 and -200 <= x1 <= 200', budget=900)
