"""Engine C obligations: float -> INTEGER / LONG conversion kernels decided by
z3 over all doubles (vlib/kernelsmt.py); counterexamples are replayed on the
real methods before they are reported."""
import json
import math
import os
import sys
from fractions import Fraction

VERIF = os.path.dirname(os.path.dirname(os.path.abspath(__file__)))

KERNELS = {
    # name: (extractor, args, how the real code is called for a replay)
    'conv': ('conv_lambda', (), 'conv'),
    'cint': ('assigned_expr', ('qvm/cpu.py', '_exec_cint', 'result',
                               'value.value'), 'cint'),
    'clng': ('assigned_expr', ('qvm/cpu.py', '_exec_clng', 'result',
                               'value.value'), 'clng'),
    'parse_integral': ('last_return', ('qvm/machine.py', 'parse_integral',
                                       'value'), 'parse_integral'),
}


def spec(n, type_name):
    """Exact reference: nearest integer, ties to even; None if it does not
    fit the type."""
    from vlib import kernelsmt as K
    q = Fraction(n)
    f = math.floor(q)
    d = q - f
    if d > Fraction(1, 2) or (d == Fraction(1, 2) and f % 2 == 1):
        f += 1
    lo, hi = K.RANGES[type_name]
    return f if lo <= f <= hi else None


class _Stub:
    """self for the real QvmCpu._exec_* functions: real CellValue (hence the
    real Type.can_hold / coerce), a list for the stack."""

    def __init__(self, cell):
        self.stack = [cell]

    def pop(self, expected=None):
        v = self.stack.pop()
        if expected is not None:
            assert v.type == expected
            return expected.py_type(v.value)
        return v

    def push(self, t, v):
        from qvm.cell import CellValue
        self.stack.append(CellValue(t, v))

    def trap(self, *a, **k):
        raise RuntimeError('trap %r %r' % (a, k))


def real_result(how, n, type_name):
    """What the real code does for the double n: ('value', int) or
    ('rejected', reason)."""
    from qvm.cell import CellValue, CellType
    from qvm.cpu import QvmCpu
    from qvm.trap import Trapped
    dst = getattr(CellType, type_name)
    try:
        if how == 'conv':
            st = _Stub(CellValue(CellType.DOUBLE, n))
            getattr(QvmCpu, '_exec_conv_double_%s' % type_name.lower())(st)
            c = st.stack[-1]
        elif how in ('cint', 'clng'):
            if (how == 'cint') != (type_name == 'INTEGER'):
                return ('skip', '')
            st = _Stub(CellValue(CellType.DOUBLE, n))
            getattr(QvmCpu, '_exec_' + how)(st)
            c = st.stack[-1]
        else:
            from qvm.machine import parse_integral
            c = CellValue(dst, parse_integral(repr(n)))
    except Trapped as e:
        return ('rejected', str(e.trap_code))
    if c.type != dst or isinstance(c.value, float):
        return ('value', repr(c))
    return ('value', c.value)


def decide_kernel(name, type_name):
    """Returns 1 when every lemma is unsat-negated (holds for all finite
    doubles), 0 when a counterexample replays on the real code.  Raises when
    a result is `unknown` or a counterexample does not replay (the runner
    reports that as not discharged)."""
    from vlib import kernelsmt as K
    ext, args, how = KERNELS[name]
    kernel, var, text = getattr(K, ext)(*args)
    if not K.reachability_witness(kernel, var, type_name):
        raise RuntimeError('vacuous encoding')
    results = K.decide(kernel, var, type_name)
    report = {'kernel': name, 'type': type_name, 'source': text,
              'results': results}
    print('KERNEL-SMT ' + json.dumps(report))
    bad = [r for r in results if r['result'] != 'unsat']
    if not bad:
        return 1
    for r in bad:
        if r['result'] != 'sat':
            raise RuntimeError('solver answered %s for %s/%s/%s' % (
                r['result'], name, type_name, r['lemma']))
    for r in bad:
        n = r['model']
        want = spec(n, type_name)
        got = real_result(how, n, type_name)
        if got[0] == 'skip':
            continue
        agrees = (got == ('value', want)) if want is not None \
            else got[0] == 'rejected'
        if not agrees:
            print('KERNEL-CEX kernel=%s type=%s lemma=%s n=%r expected=%r '
                  'real=%r' % (name, type_name, r['lemma'], n, want, got))
            return 0
    raise RuntimeError('counterexample(s) %r did not replay on the real '
                       'code: the encoding misrepresents it' %
                       [(r['lemma'], r.get('model')) for r in bad])


def kernel_conv_integer():
    return decide_kernel('conv', 'INTEGER')


def kernel_conv_long():
    return decide_kernel('conv', 'LONG')


def kernel_cint():
    return decide_kernel('cint', 'INTEGER')


def kernel_clng():
    return decide_kernel('clng', 'LONG')


def kernel_parse_integral_integer():
    return decide_kernel('parse_integral', 'INTEGER')


def kernel_parse_integral_long():
    return decide_kernel('parse_integral', 'LONG')


def kernel_single_can_hold():
    """SINGLE cells: accepted iff the value rounds to a finite binary32."""
    import struct
    from vlib import kernelsmt as K
    # the struct.pack model on the exact boundary (native, every run)
    edge = float(2 ** 128 - 2 ** 103)
    for x, ok in [(edge, False), (math.nextafter(edge, 0), True),
                  (-edge, False), (math.nextafter(-edge, 0), True),
                  (3.4028234663852886e38, True), (1e39, False), (0.0, True)]:
        try:
            struct.pack('>f', x)
            real = True
        except OverflowError:
            real = False
        import z3
        enc = z3.is_true(z3.simplify(K.pack_f_succeeds(z3.FPVal(x, K.F64))))
        if real != ok or enc != ok:
            raise RuntimeError('struct.pack model mismatch at %r' % x)
    d = K.decide_single()
    print('KERNEL-SMT ' + json.dumps({'kernel': 'can_hold', 'type': 'SINGLE',
                                      'results': [d]}))
    if d['result'] == 'unsat':
        return 1
    if d['result'] != 'sat':
        raise RuntimeError('solver answered %s for can_hold/SINGLE' %
                           d['result'])
    from qvm.cell import CellValue, CellType
    from qvm.trap import Trapped
    x = d['model']
    fits = abs(Fraction(x)) < Fraction(2 ** 128 - 2 ** 103)
    try:
        c = CellValue(CellType.SINGLE, x)
        got = ('value', c.value)
    except Trapped:
        got = ('rejected',)
    except Exception as e:  # noqa
        got = ('host exception', '%s: %s' % (type(e).__name__, e))
    if (got[0] == 'value') != fits or got[0] == 'host exception':
        print('KERNEL-CEX kernel=can_hold type=SINGLE v=%r fits=%r real=%r'
              % (x, fits, got))
        return 0
    raise RuntimeError('counterexample %r did not replay' % x)


ALL = ['kernel_single_can_hold', 'kernel_conv_integer', 'kernel_conv_long', 'kernel_cint',
       'kernel_clng', 'kernel_parse_integral_integer',
       'kernel_parse_integral_long']


def validate_translator():
    """Translator validation: the encoding evaluated on concrete doubles
    (z3 simplify) must equal the real expression evaluated by CPython, on a
    boundary table."""
    import z3
    from vlib import kernelsmt as K
    table = [0.0, -0.0, 0.5, -0.5, 1.5, 2.5, -1.5, -2.5, 0.49999999999999994,
             32767.49, 32767.5, 32768.5, -32768.5, -32768.50000000001,
             -32769.5, 2147483647.5, 2147483646.5, -2147483648.5,
             -2147483649.5, 4503599627370495.5, 4503599627370496.0,
             9007199254740993.0, 1e300, -1e300, 5e-324, 1.0000000000000002]
    for name, (ext, args, how) in KERNELS.items():
        kernel, var, text = getattr(K, ext)(*args)
        code = compile(ast_expr(kernel), '<kernel>', 'eval')
        for x in table:
            term = K.Translator({var: z3.FPVal(x, K.F64)}).expr(kernel)
            enc = K.fp_to_float(z3.simplify(term))
            ns = {'round': round, 'int': int, 'math': math, 'abs': abs,
                  'float': float}
            if '.' in var:
                base, attr = var.split('.')
                ns[base] = type('V', (), {attr: x})()
            else:
                ns[var] = x
            real = eval(code, ns)
            if float(real) != enc or real != Fraction(enc):
                return 'translator mismatch: %s at %r: real %r, encoding %r' \
                    % (name, x, real, enc)
    return ''


DESC = {
    'kernel_translator_validation':
        'translator validation: encoding == CPython on a boundary table, '
        'for every extracted kernel',
    'kernel_single_can_hold':
        'CellValue(SINGLE, v) / Type.can_hold: accepted <=> v rounds to a '
        'finite binary32 (coerce cannot raise, nothing that fits is rejected)',
    'kernel_conv_integer': 'conv_<float>_integer',
    'kernel_conv_long': 'conv_<float>_long',
    'kernel_cint': 'CINT (QvmCpu._exec_cint)',
    'kernel_clng': 'CLNG (QvmCpu._exec_clng)',
    'kernel_parse_integral_integer':
        'INPUT / READ of a decimal numeral into an INTEGER (parse_integral)',
    'kernel_parse_integral_long':
        'INPUT / READ of a decimal numeral into a LONG (parse_integral)',
}


def obligations(names=None):
    """Obl objects (kind='smt') for the runner."""
    from vlib.runner import Obl
    out = []
    for f in ['kernel_translator_validation'] + ALL:
        if names is not None and f not in names:
            continue
        o = Obl('kernel-smt/' + f[len('kernel_'):], 'props.ob_kernel', f,
                300, family='kernel-smt (z3 Float64, all finite doubles)',
                kind='smt',
                desc=DESC[f] + ': kernel expression read from /repo with '
                'ast, translated to z3 FP terms; for ALL finite doubles: '
                'result integral, accepted => in range, accepted value is '
                'the nearest integer with ties to even, accepted <=> the '
                'rounded value fits the type; counterexamples replayed on '
                'the real QvmCpu method / CellValue / parse_integral',
                functions=['qvm.cpu conv lambda', 'qvm.cpu.QvmCpu._exec_cint',
                           'qvm.cpu.QvmCpu._exec_clng',
                           'qvm.machine.parse_integral',
                           'qbee.expr.Type.can_hold'])
        o.native_args = ''
        out.append(o)
    return out


def ast_expr(node):
    import ast
    e = ast.Expression(body=node)
    ast.fix_missing_locations(e)
    return e


def kernel_translator_validation():
    err = validate_translator()
    if err:
        raise RuntimeError(err)
    return 1


if __name__ == '__main__':
    sys.path.insert(0, VERIF)
    print(kernel_translator_validation())
    for f in ALL:
        print(f, globals()[f]())
