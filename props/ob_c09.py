"""C09 harness: assembler / loader / decoder / disassembler / listing agree."""
import struct

from crosshair.tracers import NoTracing

from vlib import symqvm
from vlib.symqvm import compile_program, CONFIGS
from qbee import qvm_codegen
from qbee.utils import Empty
from qvm.cpu import QvmCpu
from qvm.instrs import op_code_to_instr
from qvm.module import QModule


class _Mod:
    n_global_cells = 0
    data = []
    debug_info = None

    def __init__(self, code, literals=()):
        self.code = code
        self.literals = list(literals)


def decode_all(bcode, literals=()):
    """Decode a code section with the real QvmCpu.get_instruction_at.
    Returns [(addr, op, [operands])] or None if decoding fails."""
    cpu = QvmCpu(_Mod(bcode, literals))
    out = []
    addr = 0
    while addr < len(bcode):
        instr, operands, size = cpu.get_instruction_at(addr)
        if instr is None:
            return None
        out.append((addr, instr.op, operands))
        addr += size
    if addr != len(bcode):
        return None
    return out


def _dis_lines(bcode, literals=()):
    m = QModule(list(literals), 0, [], bcode, None)
    text = m.disassemble()
    lines = []
    for ln in text.split('\n'):
        if not ln:
            continue
        addr, _, rest = ln.partition(': ')
        rest = rest.split(';')[0]
        parts = rest.split()
        lines.append((int(addr, 16), parts[0],
                      ' '.join(parts[1:]).replace(' ', '')))
    return lines


def check_codec(p, v, a, b, c, n, s, n2, texts=True):
    """A synthetic instruction list whose operands are all symbolic goes
    through the real assembler; decoder, disassembler and listing must agree
    with the source list for every operand value; every label operand must
    be the start of the instruction it names."""
    src = [
        ('_label', 'L0'), ('frame', p, v), ('push%', a), ('push&', b),
        ('allocarr', n, s), ('arridx', n2), ('jz', 'L1'), ('push%', c),
        ('jmp', 'L0'), ('_label', 'L1'), ('call', 'L0'), ('errhand', 'L1'),
        ('errhand', 0), ('errhand', 1), ('io', 'terminal', 'print'),
        ('halt',),
    ]
    code = qvm_codegen.QvmCode()
    code.add(*src)
    try:
        bcode, _ = code.assembled
    except Exception:
        return 0
    dec = decode_all(bcode)
    if dec is None:
        return 0
    real = [i for i in code._instrs if not i.op.name.startswith('_')]
    if len(dec) != len(real):
        return 0
    # label -> index of the instruction that follows it
    label_target = {}
    k = 0
    for ins in code._instrs:
        if ins.op.name == '_LABEL':
            label_target[ins.args[0]] = k
        elif not ins.op.name.startswith('_'):
            k += 1
    starts = [d[0] for d in dec]
    for (addr, op, operands), ins in zip(dec, real):
        fop, *fargs = ins.final
        if op != fop:
            return 0
        if fop in ('jmp', 'jz', 'call') or \
                (fop == 'errhand' and fargs[0] not in (0, 1)):
            if operands[0] != starts[label_target[fargs[0]]]:
                return 0
        elif fop == 'io':
            if operands != [2, 2]:
                return 0
        else:
            if list(operands) != list(fargs):
                return 0
    if not texts:
        return 1
    # disassembler: same addresses, mnemonics, operands
    dl = _dis_lines(bcode)
    if len(dl) != len(dec):
        return 0
    for (daddr, dop, dargs), (addr, op, operands) in zip(dl, dec):
        if daddr != addr or dop != op:
            return 0
        if op in ('jmp', 'jz', 'call', 'errhand'):
            want = '0x%x' % operands[0]
        else:
            want = ','.join(str(o) for o in operands)
        if dargs != want:
            return 0
    # listing: same mnemonics and operands, labels by name
    listing = []
    for ln in str(code).split('.code\n\n')[1].split('\n'):
        ln = ln.strip()
        if ln and not ln.endswith(':'):
            parts = ln.split()
            listing.append((parts[0], ''.join(parts[1:])))
    if len(listing) != len(real):
        return 0
    for (lop, largs), ins in zip(listing, real):
        fop, *fargs = ins.final
        if lop != fop:
            return 0
        if largs != ','.join(str(x) for x in fargs):
            return 0
    return 1


def check_literal_index(idx):
    """Operand codec of push$: the index the assembler packs is the index
    the decoder recovers (StringLiteral operand class)."""
    from qvm.instrs import StringLiteral
    lits = ['s%d' % k for k in (0, 1, 2)]
    packed = struct.pack('>H', idx)         # what QvmCode.assembled emits
    raw = StringLiteral(lits, [], {})._decode.__func__  # noqa
    try:
        got, = struct.unpack('>H', packed)
    except Exception:
        return 0
    # decode through the real operand class with a literal table that
    # answers every index
    class Table:
        def __getitem__(self, k):
            return k
    op = StringLiteral(Table(), [], {})
    return 1 if op._decode(packed) == idx else 0


# ---------------------------------------------------------------- programs
EXTRA_PROGRAMS = {
    'float_operands': 'x! = 0.123456789!\ny! = 3.141592653589793\n'
                      'z! = 1 / 3\nw! = 16777215\nv! = 3.141592653589793#\n'
                      'u# = 0.1#\nt# = 1 / 3#\ns! = 123456.789\n'
                      'PRINT x!; y!; z!; w!; v!; u#; t#; s!; 1E-5; 2.5D+100\n',
    'cp437_literals': 'PRINT "\u00e9\u00df\u2591\u00ff"; ""; "' + 'x' * 255
                      + '"\nPRINT "a"; "a"; "b"\n',
    'data_layouts': 'DATA 1, , "a,b", \u00e9, ""\nlab1:\nDATA\nDATA ,\n'
                    'lab2:\nDATA "unterminated\nREAD a$\n',
    'no_code': '',
    'only_end': 'END\n',
    'many_routines': ''.join(
        'SUB s%d (a%%, b&)\n  DIM l%d AS LONG\n  l%d = a%% + b&\n  '
        'IF l%d > 0 THEN EXIT SUB\nEND SUB\n' % (k, k, k, k)
        for k in range(6)) + 'CALL s3(1, 2)\nON ERROR GOTO h\nGOTO done\n'
                             'h:\nRESUME NEXT\ndone:\nON ERROR GOTO 0\n',
    'globals_statics': 'DIM SHARED g(1 TO 3) AS LONG\nDIM SHARED h AS '
                       'STRING\nCALL w\nSUB w\n  STATIC k%\n  STATIC '
                       'arr(2) AS INTEGER\n  k% = k% + 1\n  g(2) = k%\n  '
                       'arr(1) = 5\nEND SUB\n',
}


def check_program(text, cfg):
    """Concrete: module image vs what the compiler holds."""
    opt, dbg = CONFIGS[cfg]
    with NoTracing():
        code, bcode, module = compile_program(text, opt, dbg)
    # sections
    if module.literals != code._string_literals:
        return 'literals differ'
    exp_data = [list(p) for p in code._data.values()]
    if len(module.data) != len(exp_data):
        return 'data part count'
    for got, exp in zip(module.data, exp_data):
        if len(got) != len(exp):
            return 'data item count'
        for g, e in zip(got, exp):
            if (g is Empty.value) != (e is Empty.value):
                return 'empty item'
            if g is not Empty.value and g != e:
                return 'data item text'
    from qvm.memlayout import get_type_size
    n_global = sum(get_type_size(code.compilation, t)
                   for t in code._globals.values())
    if module.n_global_cells != n_global:
        return 'global size'
    dec = decode_all(module.code, module.literals)
    if dec is None:
        return 'code section does not decode'
    starts = set(d[0] for d in dec)
    real = [i for i in code._instrs if not i.op.name.startswith('_')]
    if len(real) != len(dec):
        return 'instruction count'
    frame = None
    for (addr, op, operands), ins in zip(dec, real):
        fop = ins.final[0]
        if op != fop:
            return 'mnemonic %s vs %s at %d' % (op, fop, addr)
        if op == 'frame':
            frame = operands[0] + operands[1]
        if op in ('jmp', 'jz', 'call') or (op == 'errhand' and
                                           operands[0] not in (0, 1)):
            if operands[0] not in starts:
                return '%s target %d is not an instruction start' % (
                    op, operands[0])
        base = op.rstrip('%&!#$@')
        if base in ('readl', 'storel', 'pushrefl'):
            if frame is None or operands[0] >= frame:
                return 'local operand outside frame'
        if base in ('readidxl', 'storeidxl'):
            if frame is None or operands[0] + operands[1] >= frame:
                return 'local idx operand outside frame'
        if base in ('readg', 'storeg', 'pushrefg'):
            if operands[0] >= n_global:
                return 'global operand outside global area'
        if base in ('readidxg', 'storeidxg'):
            if operands[0] + operands[1] >= n_global:
                return 'global idx operand outside global area'
        if base in ('initarrl',):
            if frame is None or operands[0] >= frame:
                return 'initarrl outside frame'
    # disassembler decodes the whole section into the same mnemonics
    dl = _dis_lines(module.code, module.literals)
    if [(a, o) for a, o, _ in dl] != [(a, o) for a, o, _ in dec]:
        return 'disassembler disagrees with decoder'
    # ... and the same operands, compared as typed values (a SINGLE as
    # the 32-bit value stored in the code, not as text)
    import struct as _st

    def _same(tchar, text, value):
        try:
            if tchar in '%&':
                return int(text) == value
            if tchar == '!':
                return _st.pack('>f', float(text)) == _st.pack('>f', value)
            if tchar == '#':
                return _st.pack('>d', float(text)) == _st.pack('>d', value)
        except (ValueError, OverflowError):
            return False
        return True
    lst = []
    for ln in str(code).split('.code\n\n')[1].split('\n'):
        ln = ln.strip()
        if ln and not ln.endswith(':'):
            parts = ln.split(None, 1)
            lst.append((parts[0], parts[1].strip() if len(parts) > 1
                        else ''))
    for k, ((addr, op, operands), (_, _, dtext)) in enumerate(zip(dec, dl)):
        if op.startswith('push') and op[-1] in '%&!#' and \
                len(operands) == 1:
            if not _same(op[-1], dtext, operands[0]):
                return 'disassembler shows %s %s at %d, the code holds %r' \
                    % (op, dtext, addr, operands[0])
            if k < len(lst) and not _same(op[-1], lst[k][1], operands[0]):
                return 'listing shows %s %s, the code holds %r at %d' % (
                    op, lst[k][1], operands[0], addr)
        elif operands and all(isinstance(o, int) for o in operands) and \
                op not in ('jmp', 'jz', 'call', 'errhand', 'io'):
            shown = [x for x in dtext.split(',') if x != '']
            try:
                if [int(x) for x in shown] != list(operands):
                    return 'disassembler shows %s %s at %d, the code ' \
                        'holds %r' % (op, dtext, addr, operands)
            except ValueError:
                pass        # symbolic rendering (names): not compared
    # listing
    listing = []
    for ln in str(code).split('.code\n\n')[1].split('\n'):
        ln = ln.strip()
        if ln and not ln.endswith(':'):
            listing.append(ln.split()[0])
    if listing != [d[1] for d in dec]:
        return 'listing disagrees with decoder'
    return None


def check_all_programs(which):
    """Native enumeration over the catalogue (and extra) programs x all
    configurations.  Returns 1/0."""
    import props.catalog_all  # noqa: F401
    from vlib import harness as H
    texts = {}
    if which == 'catalog':
        for cid, cell in H.CATALOG.items():
            texts[cid] = cell.text
    else:
        texts = dict(EXTRA_PROGRAMS)
    for name, text in texts.items():
        for cfg in range(6):
            r = check_program(text, cfg)
            if r is not None:
                print('C09 program %s cfg %d: %s' % (name, cfg, r))
                return 0
    return 1
