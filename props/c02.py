"""C02 -- optimisation and compile-time evaluation never change behaviour."""
import props.catalog_all  # noqa: F401
from vlib import harness as H
from vlib.runner import run_property
from props.common import (cell_obligations, select_cells, rot, seed, COMMON_ASSUMPTIONS,
                          REAL_FUNCTIONS)
from props import findings, c02_families

PAIRS_QUICK = [(0, 1), (0, 2), (3, 5)]
PAIRS_ALL = [(0, 1), (0, 2), (0, 6), (3, 4), (3, 5), (1, 2)]


def check_call(cell, cfg, args):
    a = (', ' + args) if args else ''
    return 'H.check_pair(%r, %d, %d%s)' % (cell.cid, cfg[0], cfg[1], a)


def generate(tier):
    cells = select_cells('C02', tier, list(H.CATALOG.values()), 3)
    if tier == 'quick':
        cfgs = lambda c: [PAIRS_QUICK[rot(c.cid, seed() + 2, 3)]]  # noqa
        timeout = 90
    else:
        cfgs = lambda c: PAIRS_ALL  # noqa: E731
        timeout = 240
    obls = cell_obligations('C02', 'c02_obl', check_call, cells, cfgs,
                            timeout)
    for o in obls:
        o.family = 'whole-program/' + o.family
    return c02_families.generate(tier) + obls


def run(tier):
    obls = generate(tier)
    return run_property(
        'C02', tier, 'translation_validation', obls,
        explanation=(
            'Family 1 (folder vs machine): the real Expr.fold() of a '
            'BinaryOp/UnaryOp over literal operands with SYMBOLIC values '
            'vs the code the real gen_binary_op emits for the unfolded '
            'node, executed by the real QvmCpu._exec_* methods: folded => '
            'same type and value and encodable by the assembler; run-time '
            'trap => not folded; fold() never raises.  Float / bitwise / '
            '"/" / "^" operands are enumerated from a boundary table '
            '(native execution; stated as enumeration).  Family 2 '
            '(peephole windows): QvmCode.optimize() on instruction windows '
            'with SYMBOLIC operands leaves stack, cells and control '
            'transfer unchanged.  Family 3 (whole programs): each catalogue cell is compiled at '
            'two optimisation levels and both modules are run on the real '
            'VM with the same SYMBOLIC inputs; trace and outcome must agree '
            'on every path (implementation vs implementation).'),
        assumptions=COMMON_ASSUMPTIONS,
        functions=REAL_FUNCTIONS + ['qbee.expr.Expr.fold',
                                    'qbee.qvm_codegen.QvmCode.optimize'],
        bounds={'program_shapes': len(H.CATALOG)},
        known_witnesses=findings.witnesses('C02'),
    )
