"""C02 families 1 and 2: harness entry points with float boundary tables."""
import struct
from vlib import foldharness as FH

def _s(x):
    return struct.unpack('>f', struct.pack('>f', x))[0]

FTABLE = {
    '!': [0.0, 1.0, -1.0, 0.5, 1.5, 2.5, -2.5, _s(1.7), _s(1.2),
          _s(3.4e38), _s(-3.4e38), 32767.5, -32768.5, 2147483648.0,
          16777216.0, _s(1e-40)],
    '#': [0.0, 1.0, -1.0, 0.5, 1.5, 2.5, -2.5, 1.7, 1.2, 0.1, 1e308, -1e308,
          3.5e38, 32767.5, 2147483647.5, -2147483648.5, 5e-324],
    '%': [0, 1, -1, 2, 7, -7, 32767, -32768],
    '&': [0, 1, -1, 2, 70000, -70000, 2147483647, -2147483648],
}


def fold_binary_table(op, lt, rt):
    """Enumerates the boundary table for a pair involving a float type.
    Returns 1 if every pair held (0 on the first violation)."""
    n = 0
    for a in FTABLE[lt]:
        for b in FTABLE[rt]:
            r = FH.check_fold_binary(op, lt, rt, a, b)
            if r == 0:
                return 0
            n += 1
    return 1


def fold_binary_table_witness(op, lt, rt):
    for a in FTABLE[lt]:
        for b in FTABLE[rt]:
            if FH.check_fold_binary(op, lt, rt, a, b) == 0:
                return (a, b)
    return None


def fold_unary_table(op, t):
    for a in FTABLE[t]:
        if FH.check_fold_unary(op, t, a) == 0:
            return 0
    return 1


def fold_table_all(op):
    """All 16 operand type pairs x boundary table for one operator; returns
    a description of the first violating case or ''."""
    for lt in '%&!#':
        for rt in '%&!#':
            for a in FTABLE[lt]:
                for b in FTABLE[rt]:
                    if op == '^' and (abs(a) > 100 or abs(b) > 100):
                        continue
                    if FH.check_fold_binary(op, lt, rt, a, b) == 0:
                        return 0
    return 1


def fold_unary_all(op):
    for t in '%&!#':
        if fold_unary_table(op, t) == 0:
            return 0
    return 1


def opt_program_small(tids):
    from vlib import compharness as CH
    for tid in tids:
        if CH.check_opt_program_small(tid) != 1:
            print('failed:', CH.FAILED[-1])
            return 0
    return 1
