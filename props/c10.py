"""C10 -- ON ERROR, RESUME and RESUME NEXT follow statement-level
semantics."""
import props.catalog_all  # noqa: F401
from vlib import harness as H
from vlib.runner import run_property
from props.common import (cell_obligations, rot, seed, COMMON_ASSUMPTIONS,
                          REAL_FUNCTIONS)
from props import findings


def check_call(cell, cfg, args):
    a = (', ' + args) if args else ''
    return 'H.check_onerror(%r, %d%s)' % (cell.cid, cfg, a)


def generate(tier):
    cells = [c for c in H.CATALOG.values() if 'onerror' in c.tags and c.ref]
    if tier == 'quick':
        cfgs = lambda c: [3, 4, 5]  # noqa: E731
        timeout = 120
    else:
        cfgs = lambda c: [3, 4, 5]  # noqa: E731
        timeout = 400
    return cell_obligations('C10', 'c10_obl', check_call, cells, cfgs,
                            timeout)


def run(tier):
    obls = generate(tier)
    return run_property(
        'C10', tier, 'other', obls,
        explanation=(
            'Programs with an error handler (RESUME NEXT, RESUME after '
            'repairing the operand, ON ERROR RESUME NEXT, ON ERROR GOTO 0 '
            'before / inside the handler, errors at expression depth, in a '
            'SUB, in a FUNCTION inside an expression, in a FOR body, two '
            'errors in sequence, an error inside the handler, falling off '
            'the end after a handled error) are compiled with -g and run '
            'with SYMBOLIC operands that decide whether and how each '
            'statement fails; trace and outcome must equal the reference '
            'interpreter\'s statement-level error semantics on every path, '
            'and after every resumption the operand stack must be back at '
            'statement-start depth at each following statement (monitor on '
            'the -g map); every program continues with a GOSUB/RETURN and a '
            'SUB call after the handler.'),
        assumptions=COMMON_ASSUMPTIONS + [
            'ERR values are qbee trap codes (documented interface)',
            'for errors inside procedures only handler entry and ERR are '
            'asserted (the property restricts RESUME semantics to '
            'module-level statements)'],
        functions=REAL_FUNCTIONS + [
            'qvm.cpu.QvmCpu._trap/trap/tick (trapped_addr)',
            '_exec_errhand/_exec_errres/_exec_errresn/_exec_errget',
            'qvm.debug_info.DebugInfo.find_stmt'],
        bounds={'programs': len(obls)},
        known_witnesses=findings.witnesses('C10'),
    )
