"""Statement-form templates with sentinel literals (C06 totality in the
literal values; C02.4 level agreement; C05 value-triggered static rules)."""
from vlib.compharness import T

A, B, C = '11111%', '12222%', '13333%'
LA, LB = '1111111&', '1222222&'

# ---------------------------------------------------------------- arithmetic
OPS = [('add', '+'), ('sub', '-'), ('mul', '*'), ('idiv', '\\'),
       ('mod', 'MOD'), ('div', '/'), ('eq', '='), ('lt', '<'),
       ('and', 'AND'), ('or', 'OR'), ('xor', 'XOR'), ('eqv', 'EQV'),
       ('imp', 'IMP')]
for name, op in OPS:
    T('asg_%s_ii' % name, 'x% = {a} {op} {b}\nPRINT x%'.format(
        a=A, b=B, op=op), '%%', family='assign')
    T('asg_%s_ll' % name, 'x& = {a} {op} {b}\nPRINT x&'.format(
        a=LA, b=LB, op=op), '&&', family='assign')
T('asg_add_li', 'x% = {a} + {b}\nPRINT x%'.format(a=LA, b=B), '&%',
  family='assign')
T('asg_mul_il_to_single', 'x! = {a} * {b}\nPRINT x!'.format(a=A, b=LB), '%&',
  family='assign')
T('asg_exp_ii', 'x# = {a} ^ {b}\nPRINT x#'.format(a=A, b=B), '%%',
  pre='-6 <= b <= 6', family='assign')
T('asg_neg_i', 'x% = -{a}\ny% = -(-{a})\nPRINT x%; y%'.format(a=A), '%',
  family='assign')
T('asg_neg_l', 'x& = -{a}\nPRINT x&'.format(a=LA), '&', family='assign')
T('asg_not_l', 'x& = NOT {a}\nPRINT x&'.format(a=LA), '&', family='assign')
T('asg_conv_l_to_i', 'x% = {a}\nPRINT x%'.format(a=LA), '&', family='assign')
T('asg_conv_nested', 'x% = CINT({a}) + CLNG({b})\nPRINT x%'.format(
    a=LA, b=B), '&%', family='assign')
T('asg_float_mix', 'x% = {a} / 3.5 + {b} * 1.5#\nPRINT x%'.format(a=A, b=LB),
  '%&', family='assign')
T('asg_paren_chain', 'x& = ({a} + {b}) * ({a} - {b}) \\ {c}\nPRINT x&'.format(
    a=A, b=B, c=C), '%%%', family='assign')

# ---------------------------------------------------------------- CONST
for name, op in OPS[:6]:
    T('const_%s_ii' % name, 'CONST k% = {a} {op} {b}\nPRINT k%'.format(
        a=A, b=B, op=op), '%%', family='const')
T('const_untyped_ll', 'CONST k = {a} * {b}\nPRINT k'.format(a=LA, b=LB),
  '&&', family='const')
T('const_in_dim', 'CONST n% = {a} - {b}\nDIM v(n%) AS INTEGER\nv(0) = 1\n'
  'PRINT v(0)'.format(a=A, b=B), '%%', family='const')
T('const_chain', 'CONST p& = {a}\nCONST q& = p& + {b}\nPRINT q&'.format(
    a=LA, b=LB), '&&', family='const')
T('const_in_sub', 'CALL w\nSUB w\n  CONST k% = {a} + {b}\n  PRINT k%\n'
  'END SUB'.format(a=A, b=B), '%%', family='const')

# ---------------------------------------------------------------- DIM
T('dim_range_i', 'DIM v({a} TO {b}) AS INTEGER\nPRINT LBOUND(v); UBOUND(v)'
  .format(a=A, b=B), '%%', family='dim')
T('dim_range_l', 'DIM v({a} TO {b}) AS LONG\nPRINT LBOUND(v)'.format(
    a=LA, b=LB), '&&', family='dim')
T('dim_upper_i', 'DIM v({a}) AS STRING\nv(0) = "x"'.format(a=A), '%',
  family='dim')
T('dim_2d', 'DIM v(1 TO {a}, {b} TO 3) AS INTEGER\nPRINT 1'.format(
    a=A, b=B), '%%', family='dim')
T('dim_record_arr', 'TYPE pt\n  x AS INTEGER\n  y AS LONG\nEND TYPE\n'
  'DIM v({a} TO {b}) AS pt\nPRINT 1'.format(a=A, b=B), '%%', family='dim')
T('dim_shared', 'DIM SHARED v({a} TO {b}) AS INTEGER\nCALL w\nSUB w\n'
  '  PRINT LBOUND(v)\nEND SUB'.format(a=A, b=B), '%%', family='dim')
T('dim_in_sub', 'CALL w\nSUB w\n  DIM v({a} TO {b}) AS LONG\n  v({a}) = 5\n'
  'END SUB'.format(a=A, b=B), '%%', family='dim')
T('dim_static_in_sub', 'CALL w\nSUB w\n  STATIC v({a} TO {b}) AS LONG\n'
  '  PRINT 1\nEND SUB'.format(a=A, b=B), '%%', family='dim')
T('dim_const_index', 'DIM v(5) AS INTEGER\nv({a}) = {b}\nPRINT v({a})'
  .format(a=A, b=B), '%%', family='dim')

# ---------------------------------------------------------------- control
T('for_bounds', 'FOR i% = {a} TO {b}\nNEXT\nPRINT i%'.format(a=A, b=B), '%%',
  family='control')
T('for_step', 'FOR i& = 1 TO {a} STEP {b}\nEXIT FOR\nNEXT\nPRINT i&'.format(
    a=LA, b=LB), '&&', family='control')
T('if_const_cond', 'IF {a} < {b} THEN PRINT 1 ELSE PRINT 2'.format(a=A, b=B),
  '%%', family='control')
T('if_block_const', 'IF {a} THEN\n  PRINT 1\nELSEIF {b} - {a} THEN\n'
  '  PRINT 2\nELSE\n  PRINT 3\nEND IF'.format(a=A, b=B), '%%',
  family='control')
T('while_const', 'WHILE {a} > {b}\n  EXIT DO\nWEND'.format(a=A, b=B), '%%',
  family='control', note='EXIT DO inside WHILE: a static error or not, '
  'never a crash')
T('do_const', 'DO WHILE {a} = {b}\n  EXIT DO\nLOOP\nDO\nLOOP UNTIL {a}\nPRINT 1'
  .format(a=A, b=B), '%%', family='control')
T('select_const', 'x% = 5\nSELECT CASE x%\nCASE {a} TO {b}\n  PRINT 1\n'
  'CASE IS > {b}\n  PRINT 2\nCASE {a}\n  PRINT 3\nEND SELECT'.format(
      a=A, b=B), '%%', family='control')
T('select_long_sel', 'SELECT CASE {a}\nCASE {b}\n  PRINT 1\nCASE ELSE\n'
  '  PRINT 2\nEND SELECT'.format(a=LA, b=LB), '&&', family='control')

# ---------------------------------------------------------------- devices
T('locate_2', 'LOCATE {a}, {b}'.format(a=A, b=B), '%%', family='device')
T('locate_row', 'LOCATE {a}'.format(a=A), '%', family='device')
T('locate_col', 'LOCATE , {a}'.format(a=A), '%', family='device')
T('locate_5', 'LOCATE {a}, {b}, 1, {c}, 7'.format(a=A, b=B, c=C), '%%%',
  family='device')
T('color_2', 'COLOR {a}, {b}'.format(a=A, b=B), '%%', family='device')
T('color_bg', 'COLOR , {a}'.format(a=A), '%', family='device')
T('screen_1', 'SCREEN {a}'.format(a=A), '%', family='device')
T('width_2', 'WIDTH {a}, {b}'.format(a=A, b=B), '%%', family='device')
T('view_print', 'VIEW PRINT {a} TO {b}'.format(a=A, b=B), '%%',
  family='device')
T('poke_l', 'POKE {a}, {b}'.format(a=LA, b=B), '&%', family='device')
T('peek_l', 'x% = PEEK({a})'.format(a=LA), '&', family='device')
T('sound_2', 'SOUND {a}, {b}'.format(a=A, b=B), '%%', family='device')
T('def_seg', 'DEF SEG = {a}'.format(a=LA), '&', family='device')
T('randomize_l', 'RANDOMIZE {a}'.format(a=LA), '&', family='device')
T('print_using_i', 'PRINT USING "###.##"; {a}; {b}'.format(a=A, b=LB), '%&',
  family='device')
T('input_then', 'INPUT x%\nPRINT x% + {a}'.format(a=A), '%', family='device')

# ---------------------------------------------------------------- builtins
T('fn_mid3', 'PRINT MID$("hello", {a}, {b})'.format(a=A, b=B), '%%',
  family='builtin')
T('fn_string', 'PRINT STRING$({a}, {b})'.format(a=A, b=B), '%%',
  family='builtin')
T('fn_chr_space', 'PRINT CHR$({a}); SPACE$({b})'.format(a=A, b=B), '%%',
  family='builtin')
T('fn_left_right', 'PRINT LEFT$("abc", {a}); RIGHT$("abc", {b})'.format(
    a=A, b=B), '%%', family='builtin')
T('fn_abs_sgn', 'PRINT ABS({a}); INT({b}); CINT({b})'.format(a=A, b=LB),
  '%&', family='builtin')
T('fn_str_val', 'PRINT STR$({a}); VAL("1") + {b}'.format(a=LA, b=B), '&%',
  family='builtin')
T('fn_instr3', 'PRINT INSTR({a}, "hello", "l")'.format(a=A), '%',
  family='builtin')

# ---------------------------------------------------------------- procedures
T('call_args', 'CALL w({a}, {b})\nSUB w (p%, q&)\n  PRINT p%; q&\nEND SUB'
  .format(a=A, b=LB), '%&', family='proc')
T('call_args_conv', 'w {a}, {b}\nSUB w (p%, q!)\n  PRINT p%; q!\nEND SUB'
  .format(a=LA, b=B), '&%', family='proc')
T('func_ret', 'PRINT f&({a})\nFUNCTION f& (p&)\n  f& = p& * {b}\n'
  'END FUNCTION'.format(a=LA, b=LB), '&&', family='proc')
T('record_assign', 'TYPE pt\n  x AS INTEGER\n  y AS LONG\nEND TYPE\n'
  'DIM p AS pt, q AS pt\np.x = {a}\np.y = {b}\nq = p\nPRINT q.x; q.y'
  .format(a=LA, b=LB), '&&', family='proc')

# ------------------------------------------------- C02 family 4: shapes
# expression shapes mixing a run-time value with two constants: the
# constant folder, the push/push/op rule and any re-association a peephole
# rule attempts see SYMBOLIC constants and a SYMBOLIC operand
AR = [('add', '+'), ('sub', '-'), ('mul', '*'), ('idiv', '\\'),
      ('mod', 'MOD')]
LEVEL_TEMPLATES = []
for t, ca, cb, init in (('%', A, B, 'v% = PEEK(0)'),
                        ('&', LA, LB, 'v& = PEEK(0)')):
    v = 'v' + t
    tn = 'i' if t == '%' else 'l'
    for n1, o1 in AR:
        for n2, o2 in AR:
            shapes = {
                's1': '(({v} {o1} {a}) {o2} {b})',
                's2': '({a} {o1} ({v} {o2} {b}))',
                's3': '(({a} {o1} {v}) {o2} {b})',
                's4': '(({v} {o1} {a}) {o2} ({v} {o1} {b}))',
                's5': '{v} {o1} {a} {o2} {b}',
            }
            for sn, sh in shapes.items():
                tid = 'lv_%s_%s_%s_%s' % (sn, n1, n2, tn)
                T(tid, init + '\nPRINT ' + sh.format(
                    v=v, a=ca, b=cb, o1=o1, o2=o2) + '\nPRINT "end"',
                  t + t, peeks=1, family='levels')
                LEVEL_TEMPLATES.append(tid)

# negative operands are written with a unary minus (the parser never
# produces a negative literal)
T('neg_dim_range', 'DIM v(-{a} TO {b}) AS INTEGER\nPRINT LBOUND(v)'.format(
    a=A, b=B), '%%', family='dim')
T('neg_dim_both', 'DIM v(-{a} TO -{b}) AS LONG\nPRINT UBOUND(v)'.format(
    a=A, b=B), '%%', family='dim')
T('neg_asg', 'x% = -{a} - {b}\ny& = -{a} * {b}\nPRINT x%; y&'.format(
    a=A, b=B), '%%', family='assign')
T('neg_for_step', 'FOR i% = {a} TO -{b} STEP -{a}\nNEXT\nPRINT i%'.format(
    a=A, b=B), '%%', family='control')
T('neg_const', 'CONST k& = -{a} - {b}\nPRINT k&'.format(a=LA, b=LB), '&&',
  family='const')
T('neg_locate', 'LOCATE -{a}, {b}'.format(a=A, b=B), '%%', family='device')
T('neg_idiv_const', 'CONST k% = -{a} \\ -{b}\nPRINT k%'.format(a=A, b=B),
  '%%', family='const')

# powers with a negative or fractional exponent of constant operands (zero
# to a negative power, a negative number to a fractional power)
T('asg_exp_neg', 'x# = {a} ^ -{b}\nPRINT x#'.format(a=A, b=B), '%%',
  pre='b <= 6', family='assign')
T('const_exp_neg', 'CONST c# = {a} ^ -{b}\nPRINT c#'.format(a=A, b=B), '%%',
  pre='b <= 6', family='const')
T('asg_exp_neg_l', 'y& = {a} ^ -{b}\nPRINT y&'.format(a=LA, b=LB), '&&',
  pre='b <= 6', family='assign')
T('asg_exp_frac', 'x# = (0 - {a}) ^ .5\nPRINT x#'.format(a=A), '%',
  family='assign')
T('asg_exp_big', 'y& = {a} ^ {b}\nPRINT y&'.format(a=LA, b=LB), '&&',
  pre='a <= 2 or b <= 40', family='assign',
  note='2147483647 ^ 2147483647 must not keep the compiler busy for ever')
T('dim_expr_bounds', 'DIM v({a} * {b}) AS INTEGER\nPRINT 1'.format(a=A, b=B),
  '%%', family='dim')
T('dim_expr_div', 'DIM v({a} / {b} TO {a}) AS INTEGER\nPRINT 1'.format(
    a=A, b=B), '%%', family='dim')
