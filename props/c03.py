"""C03 -- accepted programs are type- and stack-safe on the VM."""
import props.catalog_all  # noqa: F401
from vlib import harness as H
from vlib.runner import run_property
from props.common import (cell_obligations, select_cells, rot, seed, COMMON_ASSUMPTIONS,
                          REAL_FUNCTIONS)
from props import findings


def check_call(cell, cfg, args):
    a = (', ' + args) if args else ''
    return 'H.check_safety(%r, %d%s)' % (cell.cid, cfg, a)


def generate(tier):
    cells = select_cells('C03', tier, list(H.CATALOG.values()), 3,
                         keep=('types',))
    if tier == 'quick':
        # -g builds carry the statement-boundary stack check
        cfgs = lambda c: [3 + rot(c.cid, seed() + 3, 3)]  # noqa: E731
        timeout = 90
    else:
        cfgs = lambda c: list(range(6))  # noqa: E731
        timeout = 240
    from props import ob_kernel
    return cell_obligations('C03', 'c03_obl', check_call, cells, cfgs,
                            timeout) + ob_kernel.obligations()


def run(tier):
    obls = generate(tier)
    return run_property(
        'C03', tier, 'other', obls,
        explanation=(
            'Run-time monitor evaluated on EVERY path of each catalogue '
            'program under symbolic execution (the property\'s own '
            'quantifier: all paths x all input values): no machine-level '
            'fault trap (type mismatch, stack empty, invalid opcode, bad '
            'variable index, null reference, invalid dimensions), no host '
            'exception, every executed pc is an instruction start, typed '
            'read/readidx/deref push their declared cell type, storage cells '
            'never change type once typed, and at every statement start '
            '(from the -g map) the operand stack is at routine-entry depth '
            '+ active GOSUBs.  Static abstract interpretation of emitted '
            'code is not a solver technique and is not built.'),
        assumptions=COMMON_ASSUMPTIONS,
        functions=REAL_FUNCTIONS,
        bounds={'program_shapes': len(H.CATALOG),
                'configs': 'one rotating -g config (quick) / all 6 '
                           '(thorough)'},
        known_witnesses=findings.witnesses('C03'),
    )
