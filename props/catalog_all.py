"""Imports every catalogue module (registers all cells)."""
import props.catalog  # noqa: F401
import props.catalog_vm  # noqa: F401
import props.catalog_types  # noqa: F401
import props.catalog_shapes  # noqa: F401
import props.catalog_err  # noqa: F401
import props.catalog_mix  # noqa: F401
import props.catalog_fbound  # noqa: F401
