"""C05 harness functions.

(a) value-triggered static rules with SYMBOLIC literals: vlib/compharness
    check_static over the templates below (solver-decided);
(b) NumericLiteral.parse on SYMBOLIC digit strings (solver-decided);
(c) position plumbing on SYMBOLIC text (solver-decided);
(d) a fault catalogue injected at several sites of host programs, compiled
    natively at every configuration (ENUMERATION - source text cannot be
    symbolic; said so in the evidence).
"""
from vlib import compharness as CH
from vlib.compharness import T
from qbee import qvm_codegen  # noqa: F401
from qbee.compiler import Compiler
from qbee.exceptions import SyntaxError as QSyntaxError, CompileError
from qbee.expr import NumericLiteral, Type

A, B = '11111%', '12222%'
LA, LB = '1111111&', '1222222&'
MAXF = 65535

# ----------------------------------------------------------------- (a)


def _dim_rule(lo, hi, header=5, extra=0, elsize=1):
    if lo > hi:
        return 'INVALID_DIMENSIONS'
    if (hi - lo + 1) * elsize + header + extra > MAXF:
        return 'INVALID_DIMENSIONS'
    return None


T('st_dim_range_i', 'x% = 1\nDIM v({a} TO {b}) AS INTEGER\nPRINT x%'.format(
    a=A, b=B), '%%', family='static', line=2,
  reject=lambda a, b: _dim_rule(a, b, extra=1))
T('st_dim_range_l', 'DIM v({a} TO {b}) AS LONG\nv({a}) = 1'.format(
    a=LA, b=LB), '&&', family='static', line=1,
  reject=lambda a, b: _dim_rule(a, b))
T('st_dim_neg', 'PRINT 1\nPRINT 2\nDIM v(-{a} TO -{b}) AS INTEGER'.format(
    a=A, b=B), '%%', family='static', line=3,
  reject=lambda a, b: _dim_rule(-a, -b))
T('st_dim_2d_in_sub', 'CALL w\nSUB w\n  DIM v(1 TO {a}, 1 TO {b}) AS LONG\n'
  'END SUB'.format(a=A, b=B), '%%', family='static', line=3,
  reject=lambda a, b: ('INVALID_DIMENSIONS' if a < 1 or b < 1 or
                       a * b + 7 > MAXF else None))
T('st_dim_record', 'TYPE pt\n  x AS INTEGER\n  y AS LONG\nEND TYPE\n'
  'DIM v({a} TO {b}) AS pt'.format(a=A, b=B), '%%', family='static', line=5,
  reject=lambda a, b: _dim_rule(a, b, elsize=2))
T('st_const_add', 'x = 1\nCONST k% = {a} + {b}\nPRINT k%'.format(a=A, b=B),
  '%%', family='static', line=2,
  reject=lambda a, b: 'INVALID_CONSTANT' if a + b > 32767 else None)
T('st_const_mul_l', 'CONST k& = {a} * {b}\nPRINT k&'.format(a=LA, b=LB),
  '&&', family='static', line=1,
  reject=lambda a, b: 'INVALID_CONSTANT' if a * b > 2147483647 else None)
T('st_const_idiv', 'PRINT 1\nCONST k% = {a} \\ {b}\nPRINT k%'.format(
    a=A, b=B), '%%', family='static', line=2,
  reject=lambda a, b: 'INVALID_CONSTANT' if b == 0 else None)
T('st_const_in_dim', 'CONST n% = {a} - {b}\nDIM v(n%) AS INTEGER\nv(0) = 1'
  .format(a=A, b=B), '%%', family='static', line=2,
  reject=lambda a, b: 'INVALID_DIMENSIONS' if a - b < 0 else None)

STATIC_TEMPLATES = [t for t in CH.TEMPLATES if t.startswith('st_')]

# ----------------------------------------------------------------- (b)


def literal_rule(token, type_char):
    """Reference: decimal digit string -> (type name, value) or None."""
    v = 0
    for ch in token:
        v = v * 10 + (ord(ch) - 48)
    if type_char == '%':
        return ('INTEGER', v) if v <= 32767 else None
    if type_char == '&':
        return ('LONG', v) if v <= 2147483647 else None
    if v <= 32767:
        return ('INTEGER', v)
    if v <= 2147483647:
        return ('LONG', v)
    return None


def check_literal(token, tc):
    """tc: 0 = no type char, 1 = %, 2 = &."""
    type_char = (None, '%', '&')[tc]
    want = literal_rule(token, type_char)
    try:
        lit = NumericLiteral.parse(token, type_char)
    except ValueError:
        return 1 if want is None else 0
    except Exception:  # noqa
        return 0
    if want is None:
        return 0
    if lit.type.name.upper() != want[0] or lit.value != want[1]:
        return 0
    return 1


def digits_ok(token, maxlen):
    if len(token) < 1 or len(token) > maxlen:
        return False
    for ch in token:
        if not (48 <= ord(ch) <= 57):
            return False
    return True

# ----------------------------------------------------------------- (c)


# 'a', blank, newline and characters that str.splitlines() / universal
# newlines treat as line ends but the parser does not (lines are counted by
# '\n' only)
LINE_ALPHABET = 'a \n\r\x0c\x85\u2028'


def check_line_col(text, off):
    from qbee.utils import convert_index_to_line_col
    try:
        line, col = convert_index_to_line_col(text, off)
    except Exception:  # noqa
        return 0
    if 0 <= off < len(text):
        want = 1
        for k in range(off):
            if text[k] == '\n':
                want += 1
        if line != want:
            return 0
    return 1


def check_display(text, loc):
    import qbee.utils as qutils
    orig = qutils.eprint
    lines = []
    qutils.eprint = lambda *a, **k: lines.append(a)
    try:
        qutils.display_with_context(text, loc, msg='E')
    except Exception:  # noqa
        return 0
    finally:
        qutils.eprint = orig
    return 1

# ----------------------------------------------------------------- (d)


HOSTS = {
    # name: (text with {F}, 1-based line of {F}, kinds of fault it takes)
    'main': ('x% = 1\ns$ = "a"\n{F}\nPRINT x%\n', 3, 'sb'),
    'sub': ('CALL w\nSUB w\n  x% = 2\n  s$ = "a"\n  {F}\nEND SUB\n', 5, 'sb'),
    'function': ('PRINT f%(1)\nFUNCTION f% (p%)\n  x% = p%\n  s$ = "a"\n'
                 '  {F}\n  f% = x%\nEND FUNCTION\n', 5, 'sb'),
    'nested': ('x% = 1\ns$ = "a"\nFOR i% = 1 TO 2\n  IF x% THEN\n    {F}\n'
               '  END IF\nNEXT\n', 5, 'sb'),
    'if1': ('x% = 1\ns$ = "a"\nIF x% THEN {F}\nPRINT 2\n', 3, 's'),
    'after_decls': ('TYPE pt\n  a AS INTEGER\nEND TYPE\nCONST c% = 5\n'
                    'DIM x%, s$\nDIM r AS pt\n{F}\nPRINT c%\n', 7, 'sb'),
    'after_sub': ('x% = 1\ns$ = "a"\n{F}\nCALL w\nSUB w\n  PRINT 1\n'
                  'END SUB\n', 3, 'sb'),
}
# faults: (name, statement text, expected category, kind) kind s = simple
# one-line statement usable after THEN, b = needs its own line
FAULTS = [
    ('assign_str_to_int', 'x% = "a"', 'TYPE_MISMATCH', 's'),
    ('assign_int_to_str', 's$ = 5', 'TYPE_MISMATCH', 's'),
    ('op_mixed', 'x% = 1 + "a"', 'TYPE_MISMATCH', 's'),
    ('cmp_mixed', 'x% = (s$ = 5)', 'TYPE_MISMATCH', 's'),
    ('cond_string', 'IF s$ THEN x% = 1', 'TYPE_MISMATCH', 'b'),
    ('while_string', 'WHILE s$\nWEND', 'TYPE_MISMATCH', 'b'),
    ('arg_type', 'x% = LEN(5)', 'TYPE_MISMATCH', 's'),
    ('neg_string', 'x% = -s$', 'TYPE_MISMATCH', 's'),
    ('undef_label', 'GOTO nowhere', 'LABEL_NOT_DEFINED', 's'),
    ('undef_gosub', 'GOSUB nowhere', 'LABEL_NOT_DEFINED', 's'),
    ('undef_sub', 'CALL nosuch', 'SUBPROGRAM_NOT_FOUND', 's'),
    ('arg_count', 'x% = LEN(s$, s$)', 'ARGUMENT_COUNT_MISMATCH', 's'),
    ('rank', 'DIM q%(1 TO 2)\nq%(1, 1) = 3', 'WRONG_NUMBER_OF_DIMENSIONS',
     'b'),
    ('undef_type', 'DIM z AS nosuchtype', 'TYPE_NOT_DEFINED', 's'),
    ('dup_def', 'DIM d1%\nDIM d1%', 'DUPLICATE_DEFINITION', 'b'),
    ('exit_for_outside', 'EXIT DO', 'INVALID_EXIT', 's'),
    ('nonconst_const', 'CONST k9% = x%', 'INVALID_CONSTANT', 's'),
    ('bad_literal', 'x% = 99999%', 'SYNTAX', 's'),
    ('bad_literal_long', 'x% = 9999999999&', 'SYNTAX', 's'),
    ('dim_bounds', 'DIM w9%(5 TO 2)', 'INVALID_DIMENSIONS', 's'),
    ('double_else', 'IF x% THEN\nELSE\nELSE\nEND IF', 'ANY', 'b'),
    ('elseif_after_else', 'IF x% THEN\nELSE\nELSEIF x% THEN\nEND IF', 'ANY',
     'b'),
    ('array_as_for_limit', 'DIM q9(3) AS INTEGER\nFOR i9 = 1 TO q9\nNEXT',
     'TYPE_MISMATCH', 'b'),
    ('array_as_step', 'DIM q8(3) AS INTEGER\nFOR i8 = 1 TO 2 STEP q8\nNEXT',
     'TYPE_MISMATCH', 'b'),
    ('array_as_operand', 'DIM q7(3) AS INTEGER\nRANDOMIZE q7',
     'TYPE_MISMATCH', 'b'),
    ('array_in_sound', 'DIM q6(3) AS INTEGER\nSOUND q6, 1', 'TYPE_MISMATCH',
     'b'),
    ('array_in_input', 'DIM q5(3) AS INTEGER\nINPUT q5', 'TYPE_MISMATCH',
     'b'),
    ('array_in_expr', 'DIM q4(3) AS INTEGER\nx% = q4 + 1', 'TYPE_MISMATCH',
     'b'),
    ('array_as_cond', 'DIM q3(3) AS INTEGER\nDO UNTIL q3\nLOOP',
     'TYPE_MISMATCH', 'b'),
    ('print_array', 'DIM q2(3) AS INTEGER\nPRINT q2', 'TYPE_MISMATCH', 'b'),
    ('stray_case_else', 'CASE ELSE', 'ANY', 'b'),
    ('unclosed_for', 'FOR j9% = 1 TO 2', 'ANY', 'b'),
    ('stray_next', 'NEXT', 'ANY', 'b'),
    ('stray_end_if', 'END IF', 'ANY', 'b'),
    ('stray_else', 'ELSE', 'ANY', 'b'),
    ('stray_wend', 'WEND', 'ANY', 'b'),
    ('stray_loop', 'LOOP', 'ANY', 'b'),
    ('stray_case', 'CASE 1', 'ANY', 'b'),
    ('stray_end_select', 'END SELECT', 'ANY', 'b'),
]
FAILED = []

# (e) a fault that FOLLOWS a valid use of the same entity under the same
# rule: whatever a pass remembers about the valid use must not license the
# invalid one.  (name, text, expected category, 1-based line of the fault)
AFTER_VALID = [
    ('goto_other_routine',
     'GOTO l1\nl1:\nCALL w\nEND\nSUB w\n  GOTO l1\nEND SUB\n',
     'LABEL_NOT_DEFINED', 6),
    ('gosub_other_routine',
     'GOSUB l1\nEND\nl1:\nRETURN\nSUB w\n  GOSUB l1\nEND SUB\n',
     'LABEL_NOT_DEFINED', 6),
    ('goto_two_subs',
     'CALL a\nCALL b\nSUB a\n  GOTO l2\n  l2:\nEND SUB\nSUB b\n'
     '  GOTO l2\nEND SUB\n', 'LABEL_NOT_DEFINED', 8),
    ('goto_sub_label_from_main_after',
     'CALL a\nSUB a\n  GOTO l3\n  l3:\nEND SUB\n', None, 0),
    ('goto_function_then_sub',
     'PRINT f%(1)\nCALL w\nFUNCTION f%(p%)\n  GOTO l4\n  l4:\n  f% = p%\n'
     'END FUNCTION\nSUB w\n  GOSUB l4\nEND SUB\n', 'LABEL_NOT_DEFINED', 9),
    ('restore_other_routine',
     'RESTORE d1\nd1:\nDATA 1\nCALL w\nSUB w\n  GOTO d1\nEND SUB\n',
     'LABEL_NOT_DEFINED', 6),
    ('arg_count_after_valid_call',
     'CALL w(1)\nCALL w(1, 2)\nSUB w (p%)\n  PRINT p%\nEND SUB\n',
     'ARGUMENT_COUNT_MISMATCH', 2),
    ('arg_type_after_valid_call',
     'CALL w(1)\nCALL w("a")\nSUB w (p%)\n  PRINT p%\nEND SUB\n',
     'TYPE_MISMATCH', 2),
    ('rank_after_valid_index',
     'DIM q%(1 TO 2)\nq%(1) = 3\nq%(1, 1) = 3\n',
     'WRONG_NUMBER_OF_DIMENSIONS', 3),
    ('exit_do_after_valid_exit',
     'DO\n  EXIT DO\nLOOP\nEXIT DO\n', 'INVALID_EXIT', 4),
    ('exit_for_after_valid_exit',
     'FOR i% = 1 TO 2\n  EXIT FOR\nNEXT\nEXIT FOR\n', 'INVALID_EXIT', 4),
    ('type_after_valid_dim',
     'TYPE pt\n  a AS INTEGER\nEND TYPE\nDIM r AS pt\nDIM z AS pu\n',
     'TYPE_NOT_DEFINED', 5),
    ('undef_label_after_valid_goto',
     'GOTO l5\nl5:\nGOTO l6\n', 'LABEL_NOT_DEFINED', 3),
    ('undef_sub_after_valid_call',
     'CALL w\nCALL v\nSUB w\nEND SUB\n', 'SUBPROGRAM_NOT_FOUND', 2),
    ('assign_after_valid_assign_other_scope',
     'x% = 1\nCALL w\nSUB w\n  x$ = "a"\n  x$ = 5\nEND SUB\n',
     'TYPE_MISMATCH', 5),
    ('dup_after_valid_in_other_scope',
     'DIM d%\nCALL w\nSUB w\n  DIM d%\n  DIM d%\nEND SUB\n',
     'DUPLICATE_DEFINITION', 5),
]


def check_after_valid():
    """Every AFTER_VALID program x 6 configurations: rejected with the
    category of the rule at a position on the line of the invalid use (or
    accepted, where the expected category is None)."""
    configs = [(o, d) for o in (0, 1, 2) for d in (False, True)]
    for name, text, want, line in AFTER_VALID:
        for opt, dbg in configs:
            r = _compile(text, opt, dbg)
            if want is None:
                ok = r[0] == 'ok'
            else:
                ok = r[0] == 'diag' and r[1] == want and r[2] is not None \
                    and 0 <= r[2] <= len(text) and \
                    CH.line_of(text, r[2]) == line
            if not ok:
                FAILED.append(('after_valid', name, opt, dbg, r))
                print('after-valid fault %s (-O%d%s): %r, expected %s on '
                      'line %d' % (name, opt, ' -g' if dbg else '', r, want,
                                   line))
                return 0
    return 1


def _compile(text, opt, dbg):
    try:
        c = Compiler(codegen_name='qvm', optimization_level=opt,
                     debug_info=dbg)
        code = c.compile(text)
        code.__bytes__()
        return ('ok', None, None)
    except QSyntaxError as e:
        return ('diag', 'SYNTAX', e.loc_start)
    except CompileError as e:
        return ('diag', e.code.name, e.loc_start)
    except Exception as e:  # noqa
        return ('crash', type(e).__name__, None)


def check_fault_catalogue(host_name):
    """Every fault at this site x 6 configurations: rejected, with the
    category of the rule (the same at every configuration), at a position
    on the line(s) of the injected construct; the host without the fault is
    accepted."""
    host, line, kinds = HOSTS[host_name]
    configs = [(o, d) for o in (0, 1, 2) for d in (False, True)]
    clean = host.replace('{F}', 'PRINT 0')
    for opt, dbg in configs:
        r = _compile(clean, opt, dbg)
        if r[0] != 'ok':
            FAILED.append((host_name, 'clean', opt, dbg, r))
            print('host %s rejected without a fault: %r' % (host_name, r))
            return 0
    for name, stmt, want, kind in FAULTS:
        if kind not in kinds:
            continue
        if host_name == 'nested' and name in ('stray_else', 'stray_end_if'):
            # inside the host's own IF block these are not faults
            continue
        indent = host.split('{F}')[0].split('\n')[-1]
        body = stmt.replace('\n', '\n' + indent)
        text = host.replace('{F}', body)
        n_lines = stmt.count('\n') + 1
        for opt, dbg in configs:
            r = _compile(text, opt, dbg)
            ok = r[0] == 'diag'
            if ok and want != 'ANY' and r[1] != want:
                ok = False
            if ok:
                loc = r[2]
                if loc is None or not (0 <= loc <= len(text)):
                    ok = False
                else:
                    ln = CH.line_of(text, loc)
                    if name.startswith('unclosed'):
                        # reported at the FOR or where the mismatch shows
                        if ln < line:
                            ok = False
                    elif not (line <= ln < line + n_lines):
                        ok = False
            if not ok:
                FAILED.append((host_name, name, opt, dbg, r))
                print('fault %s at site %s (-O%d%s): %r, expected %s on '
                      'line %d' % (name, host_name, opt, ' -g' if dbg else '',
                                   r, want, line))
                return 0
    return 1
