"""Templates for C07 (VM totality): one BASIC template per builtin function /
device statement / operator with operands that can make the instruction
fail, all operands symbolic.  Cells tagged 'vm'; ref=False where the
reference has no semantics for the statement (then only totality is
asserted)."""
from vlib.qbspec import Prog
from vlib.harness import Cell, register
from props.catalog import (inputs, B, U, F, P, L, I, LG, S, var, mk)  # noqa


def vm(cid, names, body, pre=None, impl='sym', ref=False, tags=(), **kw):
    kw.setdefault('family', 'vm')
    return mk(cid, names, body, pre=pre, tags=('vm',) + tuple(tags), ref=ref,
              impl=impl, **kw)


def raw(text):
    return ('raw', text)


# builtins whose operand can be illegal
vm('vm_string_code', ['n%', 'c%'], [P(F('STRING$', var('n%'), var('c%')))],
   pre='x0 <= 3 and (x1 < 0 or x1 > 250 or x1 in (0, 65, 200))', ref=True)
vm('vm_chr', ['c%'], [P(F('CHR$', var('c%')))], ref=True,
   pre='x0 < 0 or x0 > 250 or x0 in (0, 65, 128, 200)')
vm('vm_chr_long', ['c&'], [P(F('CHR$', var('c&')))], ref=True,
   pre='x0 < 0 or x0 > 250 or x0 in (0, 65, 128, 200)')
vm('vm_asc', ['s$'], [P(F('ASC', var('s$')))], ref=True)
vm('vm_space', ['n%'], [P(F('LEN', F('SPACE$', var('n%'))))], pre='x0 <= 50',
   ref=True)
vm('vm_left_long', ['s$', 'n&'], [P(F('LEFT$', var('s$'), var('n&')))],
   ref=True, strlen=2, pre='x1 < -32760 or x1 > 32760 or -2 <= x1 <= 4')
vm('vm_instr_start', ['n&', 's$'],
   [P(F('INSTR', var('n&'), var('s$'), S('a')))], ref=True, strlen=3,
   pre='x0 <= 5 or x0 > 2147483640')
vm('vm_exp_int', ['a%', 'b%'], [P(B('^', var('a%'), var('b%')))],
   pre='-3 <= x0 <= 3 and -3 <= x1 <= 3')

# arrays
vm('vm_dyn_dim', ['n%', 'i%'],
   [('dim', 'dim', [('d%', [(I(1), var('n%'))], None)]),
    L(('idx', 'd%', [var('i%')]), I(5)), P(('idx', 'd%', [var('i%')]))],
   pre='x0 <= 3', ref=False)
vm('vm_implicit_arr', ['i%'],
   [L(('idx', 'q&', [var('i%')]), LG(9)), P(('idx', 'q&', [var('i%')]))],
   ref=True)

# device statements, symbolic stub peripherals
vm('vm_locate', ['a%', 'b%', 'c%'],
   [raw('LOCATE a%, b%, c%'), raw('LOCATE a%, b%')])
vm('vm_color', ['a%', 'b%', 'c%'],
   [raw('COLOR a%, b%, c%'), raw('COLOR a%'), raw('COLOR , b%')])
vm('vm_screen_width', ['a%', 'b%'],
   [raw('SCREEN a%'), raw('WIDTH a%, b%'), raw('WIDTH a%')])
vm('vm_view_print', ['a%', 'b%'],
   [raw('VIEW PRINT a% TO b%'), raw('VIEW PRINT')])
vm('vm_poke_peek', ['a&', 'v%', 's&'],
   [raw('DEF SEG = s&'), raw('POKE a&, v%'), raw('PRINT PEEK(a&)'),
    raw('DEF SEG')], peeks=1)
vm('vm_sound', ['f%', 'd&'], [raw('SOUND f%, d&')])
vm('vm_play_kill', ['s$'], [raw('PLAY s$'), raw('KILL s$')])
vm('vm_long_to_int_args', ['a&'],
   [raw('LOCATE a&, 1'), raw('COLOR a&'), raw('SCREEN a&')])

# the same statements on the real dumb peripherals
vm('dumb_color_fg', ['a%'], [raw('COLOR a%, 1, 2')],
   impl='dumb', pre='-2 <= x0 <= 40')
vm('dumb_color_bg', ['b%', 'c%'], [raw('COLOR 7, b%, c%')],
   impl='dumb', pre='-2 <= x0 <= 12 and (x1 in (-1, 0, 15, 16))')
vm('dumb_locate_cls', ['a%', 'b%'],
   [raw('CLS'), raw('LOCATE a%, b%'), raw('PRINT "x"')], impl='dumb',
   pre='-3 <= x0 <= 100 and -3 <= x1 <= 100')
vm('dumb_screen_width', ['a%', 'b%', 'c%'],
   [raw('SCREEN a%'), raw('WIDTH b%, c%')], impl='dumb',
   pre='-2 <= x0 <= 20 and 0 <= x1 <= 100 and 0 <= x2 <= 60')
vm('dumb_view_print', ['a%', 'b%'], [raw('VIEW PRINT a% TO b%')],
   impl='dumb', pre='-3 <= x0 <= 30 and -3 <= x1 <= 30')
vm('dumb_poke_peek', ['a&', 'v%', 's&'],
   [raw('DEF SEG = s&'), raw('POKE a&, v%'), raw('PRINT PEEK(a&)')],
   impl='dumb',
   pre='(x2 in (0, 47104, 5, -1, 65536)) and (x0 in (1047, 0, -1, 70000)) '
       'and -2 <= x1 <= 300')
vm('dumb_sound', ['f%', 'd&'], [raw('SOUND f%, d&')], impl='dumb')
vm('dumb_inkey', [], [raw('k$ = INKEY$'), P(S('after'))], impl='dumb')
vm('dumb_kill', ['s$'], [raw('KILL "C:" + s$')], impl='dumb', strlen=2)

# DATA / READ
vm('vm_read_types', [],
   [raw('DATA 12, abc, 70000, "q r", , 1.5'),
    raw('READ a%'), raw('READ b$'), raw('READ c&'), raw('READ d$'),
    raw('READ e%'), raw('READ f!'), raw('PRINT a%; b$; c&; d$; e%; f!'),
    raw('READ g%')])
vm('vm_read_text_into_num', [], [raw('DATA abc'), raw('READ a%')])
vm('vm_read_overflow', [], [raw('DATA 70000'), raw('READ a%')])
# error handler armed: _trap takes a different branch
vm('vm_onerror_goto', ['a%', 'b%'],
   [raw('ON ERROR GOTO handler'), P(B('\\', var('a%'), var('b%'))),
    P(B('*', var('a%'), var('b%'))), P(S('end')), ('end',),
    raw('handler:'), raw('PRINT "err"; ERR'), ('end',)])
vm('vm_onerror_resume_next', ['a%', 'b%'],
   [raw('ON ERROR RESUME NEXT'), P(B('\\', var('a%'), var('b%'))),
    P(B('*', var('a%'), var('b%'))), P(S('end'))], tags=('resume',))
vm('vm_onerror_string_fn', ['s$', 'n%'],
   [raw('ON ERROR GOTO handler'), P(F('MID$', var('s$'), var('n%'))),
    P(F('ASC', var('s$'))), P(S('end')), ('end',),
    raw('handler:'), raw('PRINT "err"; ERR'), raw('RESUME NEXT')],
   strlen=2, pre='-2 <= x1 <= 4', tags=('resume',))
