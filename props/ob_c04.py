"""C04 harness functions: layout lemmas (memlayout) and element addressing
(the real array instructions) with symbolic lower bounds and indices."""
from crosshair.tracers import NoTracing

from vlib import symqvm  # noqa: F401
from vlib.foldharness import new_cpu
from qbee import qvm_codegen  # noqa: F401
from qbee.compiler import Compiler
from qvm import memlayout
from qvm.cell import CellType, CellValue
from qvm.cpu import CallFrame
from qvm.trap import Trapped, TrapCode

# ------------------------------------------------------------ addressing


def _alloc(cpu, bounds, elsize):
    for lo, hi in bounds:
        cpu.push(CellType.LONG, lo)
        cpu.push(CellType.LONG, hi)
    cpu._exec_allocarr(len(bounds), elsize)
    return cpu.stack.pop().value      # Reference to the array header


def _index(cpu, ref, idxs):
    """Returns ('ref', cell index) or ('trap', code)."""
    from qvm.cell import Reference
    for i in idxs:
        cpu.push(CellType.LONG, i)
    cpu.push(CellType.REFERENCE, Reference(ref))
    try:
        cpu._exec_arridx(len(idxs))
    except Trapped as e:
        return ('trap', e.trap_code)
    r = cpu.stack.pop().value
    if r.segment is not ref.segment:
        return ('otherseg', None)
    return ('ref', r.index)


def check_arridx(extents, elsize, lbs, i, j):
    """extents: concrete tuple; lbs: symbolic lower bounds; i, j: symbolic
    index vectors.  In range and different => disjoint element ranges inside
    the array body; equal => same cell; out of range => INDEX_OUT_OF_RANGE.
    """
    rank = len(extents)
    bounds = [(lb, lb + e - 1) for lb, e in zip(lbs, extents)]
    cpu = new_cpu()
    ref = _alloc(cpu, bounds, elsize)
    seg = ref.segment
    header = 3 + 2 * rank
    total = elsize
    for e in extents:
        total *= e
    if len(seg.cells) < header + total:
        return 0                      # body too small for the elements
    ri = _index(cpu, ref, list(i))
    rj = _index(cpu, ref, list(j))
    in_i = all(lo <= x <= hi for x, (lo, hi) in zip(i, bounds))
    in_j = all(lo <= x <= hi for x, (lo, hi) in zip(j, bounds))
    for r, inside in ((ri, in_i), (rj, in_j)):
        if inside:
            if r[0] != 'ref':
                return 0
            if r[1] < header or r[1] + elsize > header + total:
                return 0
            if (r[1] - header) % elsize != 0:
                return 0
        else:
            if r != ('trap', TrapCode.INDEX_OUT_OF_RANGE):
                return 0
    if in_i and in_j:
        same = all(a == b for a, b in zip(i, j))
        if same:
            if ri[1] != rj[1]:
                return 0
        else:
            d = ri[1] - rj[1]
            if -elsize < d < elsize:
                return 0
    if len(cpu.stack) != 0:
        return 0
    return 1


def check_arridx_rank(extents, elsize, n_given):
    """Wrong number of indices => INVALID_DIMENSIONS."""
    cpu = new_cpu()
    bounds = [(0, e - 1) for e in extents]
    ref = _alloc(cpu, bounds, elsize)
    r = _index(cpu, ref, [0] * n_given)
    if n_given == len(extents):
        return 1 if r[0] == 'ref' else 0
    return 1 if r == ('trap', TrapCode.INVALID_DIMENSIONS) else 0


# ------------------------------------------------------------ layout
_compiled = {}

LAYOUT_PROGRAMS = {
    'scalars_arrays': '''
TYPE pt
  x AS INTEGER
  y AS LONG
END TYPE
TYPE sgm
  a AS pt
  b AS pt
  n AS STRING
END TYPE
DIM s1 AS INTEGER
DIM a1(100 TO 102) AS LONG
DIM r1 AS pt
DIM a2(200 TO 201, 300 TO 302) AS INTEGER
DIM r2 AS sgm
DIM a3(400 TO 401) AS pt
DIM s2 AS STRING
s1 = 1
''',
    'sub_locals': '''
TYPE pt
  x AS INTEGER
  y AS LONG
END TYPE
CALL work(1, 2)
SUB work (p%, q AS LONG)
  DIM l1 AS LONG
  DIM la(100 TO 103) AS INTEGER
  DIM lr AS pt
  DIM lb(200 TO 201, 300 TO 301, 400 TO 402) AS pt
  l1 = p%
  FOR i% = 1 TO 2
  NEXT
  SELECT CASE l1
  CASE 1
  END SELECT
END SUB
''',
    'shared_static': '''
DIM SHARED g1 AS INTEGER
DIM SHARED ga(100 TO 104) AS LONG
DIM SHARED g2 AS STRING
CALL work
SUB work
  STATIC st1 AS LONG
  STATIC sa(200 TO 202) AS INTEGER
  st1 = st1 + 1
END SUB
''',
}


# Generated declaration lists: every ordered pair (and a seeded sample of
# triples) of declaration kinds, in three scopes.  Array lower bounds are
# placeholders (made symbolic by check_layout); extents are part of the kind,
# so that two arrays of the SAME record type with DIFFERENT extents occur in
# both orders.
DECL_KINDS = [
    ('si', '{n} AS INTEGER'), ('ss', '{n} AS STRING'),
    ('rp', '{n} AS pt'), ('rs', '{n} AS sgm'),
    ('al', '{n}({b} TO {b2}) AS LONG'),
    ('a2', '{n}({b} TO {b1}, {c} TO {c2}) AS INTEGER'),
    ('ap2', '{n}({b} TO {b1}) AS pt'), ('ap4', '{n}({b} TO {b3}) AS pt'),
    ('as3', '{n}({b} TO {b2}) AS sgm'),
    ('ap22', '{n}({b} TO {b1}, {c} TO {c1}) AS pt'),
    ('dyn', '{n}({v} TO {v} + 2) AS pt'),
]
_TYPES_TEXT = '''TYPE pt
  x AS INTEGER
  y AS LONG
END TYPE
TYPE sgm
  a AS pt
  b AS pt
  n AS STRING
END TYPE
'''


def _decl(kind_idx, k):
    base = 100 * (k + 1)
    return DECL_KINDS[kind_idx][1].format(
        n='v%d' % k, b=base, b1=base + 1, b2=base + 2, b3=base + 3,
        c=base + 50, c1=base + 51, c2=base + 52, v='n0')


def gen_layout_program(scope, kinds):
    """scope: 'main' | 'sub' | 'shared' | 'static'."""
    decls = [_decl(ki, k) for k, ki in enumerate(kinds)]
    has_dyn = any(DECL_KINDS[ki][0] == 'dyn' for ki in kinds)
    if has_dyn and scope in ('shared', 'static'):
        return None
    t = _TYPES_TEXT
    if scope == 'main':
        t += 'n0 = 7\n' + ''.join('DIM %s\n' % d for d in decls) + 'z9 = 1\n'
    elif scope == 'shared':
        t += ''.join('DIM SHARED %s\n' % d for d in decls) + \
            'CALL work\nSUB work\n  z9 = 1\nEND SUB\n'
    elif scope == 'sub':
        t += 'CALL work(1, 2)\nSUB work (p%, q AS LONG)\n  n0 = 7\n' + \
            ''.join('  DIM %s\n' % d for d in decls) + \
            '  z9 = p%\nEND SUB\n'
    else:
        t += 'CALL work\nSUB work\n' + \
            ''.join('  STATIC %s\n' % d for d in decls) + \
            '  z9 = 1\nEND SUB\n'
    return t


def generated_layouts(tier, seed=0):
    import hashlib
    import itertools
    n = len(DECL_KINDS)
    out = {}
    for scope in ('main', 'sub', 'shared', 'static'):
        combos = list(itertools.product(range(n), repeat=2))
        triples = [c for c in itertools.product(range(n), repeat=3)
                   if hashlib.sha256(repr((c, scope, seed)).encode())
                   .digest()[0] % (8 if tier != 'quick' else 64) == 0]
        for kinds in combos + triples:
            if tier == 'quick' and len(kinds) == 2 and hashlib.sha256(
                    repr((kinds, scope, seed)).encode()).digest()[0] % 3:
                # quick: a seeded third of the pairs -- but always the
                # same-record-type pairs
                names = {DECL_KINDS[k][0] for k in kinds}
                if not (len(names) == 2 and names <= {'ap2', 'ap4', 'ap22',
                                                      'dyn'}):
                    continue
            text = gen_layout_program(scope, kinds)
            if text is None:
                continue
            name = 'gen_%s_%s' % (scope, '_'.join(DECL_KINDS[k][0]
                                                  for k in kinds))
            out[name] = text
    return out


def program_text(name):
    if name in LAYOUT_PROGRAMS:
        return LAYOUT_PROGRAMS[name]
    # 'gen_<scope>_<kind>_<kind>...': regenerate from the name
    parts = name.split('_')
    assert parts[0] == 'gen', name
    codes = [k[0] for k in DECL_KINDS]
    return gen_layout_program(parts[1], [codes.index(c) for c in parts[2:]])


def register_generated(tier, seed=0):
    g = generated_layouts(tier, seed)
    LAYOUT_PROGRAMS.update(g)
    return list(g)


def _compile(name):
    if name in _compiled:
        return _compiled[name]
    with NoTracing():
        comp = Compiler(codegen_name='qvm', optimization_level=0,
                        debug_info=False)
        code = comp.compile(program_text(name))
        compilation = comp._compilation
        _compiled[name] = (code, compilation)
    return _compiled[name]


def _array_dims(compilation):
    """All ArrayDimRange nodes of declared array types, in a stable order,
    with their concrete (placeholder) lower bound."""
    out = []
    seen = set()

    def scan(types):
        for t in types:
            if t.is_array and t.array_dims:
                for d in t.array_dims:
                    if not (hasattr(d.lbound, 'value') and
                            hasattr(d.ubound, 'value')):
                        continue      # dynamic bounds: not literals
                    if id(d) not in seen:
                        seen.add(id(d))
                        out.append(d)
    scan(compilation.global_vars.values())
    for r in compilation.routines.values():
        scan(r.params.values())
        scan(r.local_vars.values())
        scan(r.static_vars.values())
    return out


def check_layout(name, lbs):
    """lbs: symbolic lower bounds substituted for the placeholder bounds of
    every array dimension (extents kept).  Variables of each routine tile
    [0, params+locals) exactly; globals tile [0, n_global_cells); record
    fields tile the record; the frame operands the code generator emitted
    equal the sizes."""
    code, comp = _compile(name)
    dims = _array_dims(comp)
    if len(lbs) < len(dims):
        return 2
    saved = []
    try:
        for d, lb in zip(dims, lbs):
            lo, hi = d.lbound.value, d.ubound.value
            saved.append((d, lo, hi))
            extent = hi - lo
            d.lbound.value = lb
            d.ubound.value = lb + extent
        return _layout_ok(code, comp)
    finally:
        for d, lo, hi in saved:
            d.lbound.value = lo
            d.ubound.value = hi


def check_layout_native(name):
    return check_layout(name, [])


def check_layouts_concrete(tier, seed=0):
    """Encoding validation: every layout program with its concrete
    placeholder bounds, executed natively.  CrossHair replaces
    functools.lru_cache wrappers by their wrapped function (its
    functoolslib patch), so state kept in such caches is invisible to the
    symbolic run; the native run sees the real thing."""
    names = list(LAYOUT_PROGRAMS) + [n for n in generated_layouts(tier, seed)
                                     if n not in LAYOUT_PROGRAMS]
    for name in names:
        code, comp = _compile(name)
        dims = _array_dims(comp)
        lbs = [d.lbound.value for d in dims]
        if check_layout(name, lbs) != 1:
            FAILED.append(name)
            return 0
    return 1


FAILED = []


def _layout_ok(code, comp):
    # routines
    for r in comp.routines.values():
        pos = 0
        for pname in r.params:
            if memlayout.get_local_var_idx(r, pname) != pos:
                return 0
            pos += 1
        if memlayout.get_params_size(r) != pos:
            return 0
        for vname, vtype in r.local_vars.items():
            if memlayout.get_local_var_idx(r, vname) != pos:
                return 0
            size = memlayout.get_type_size(comp, vtype)
            if size < 1:
                return 0
            if not _type_ok(comp, vtype, size):
                return 0
            pos += size
        if memlayout.get_params_size(r) + \
                memlayout.get_local_vars_size(r) != pos:
            return 0
    # globals
    pos = 0
    for vname, vtype in comp.global_vars.items():
        if memlayout.get_global_var_idx(comp, vname) != pos:
            return 0
        pos += memlayout.get_type_size(comp, vtype)
    n_global = sum(memlayout.get_type_size(comp, t)
                   for t in code._globals.values())
    if n_global != pos:
        return 0
    # frame operands emitted by the code generator
    frames = [i for i in code._instrs if i.op.name == 'FRAME']
    labels = [i for i in code._instrs if i.op.name == '_LABEL']
    routines = list(code._routines.values())
    if len(frames) != len(routines):
        return 0
    for ins, r in zip(frames, routines):
        op, psize, vsize = ins.final
        if psize != memlayout.get_params_size(r):
            return 0
        if vsize != memlayout.get_local_vars_size(r):
            return 0
    return 1


def _type_ok(comp, vtype, size):
    """Independent size computation from the declaration."""
    def base_size(t):
        if t.is_user_defined:
            struct = comp.user_types[t.user_type_name]
            pos = 0
            names = list(struct.fields)
            for k, (fname, ftype) in enumerate(struct.fields.items()):
                # dotted index of each field == running position
                if memlayout.get_dotted_index(t, [fname], comp) != pos:
                    return None
                fs = base_size(ftype)
                if fs is None:
                    return None
                pos += fs
            return pos
        return 1
    if vtype.is_array:
        if not vtype.is_static_array:
            return size == 1
        es = base_size(vtype.array_base_type)
        if es is None:
            return False
        n = 1
        for d in vtype.array_dims:
            n *= (d.static_ubound - d.static_lbound + 1)
        return size == 3 + 2 * len(vtype.array_dims) + n * es
    bs = base_size(vtype)
    return bs is not None and bs == size
