"""Float boundary catalogue: every numeric builtin / conversion that takes a
SINGLE or DOUBLE, on a table of boundary values (ties, type limits of
INTEGER and LONG on both sides, far outside LONG).  Floats are CONCRETE here
(CrossHair realises floats; no for-all-values claim is made for them): each
cell is one path, decided by running it."""
from vlib.qbspec import lit, var
from props.catalog import (mk, B, U, F, P, L, I, LG, S)  # noqa

VALUES = [0.5, 1.5, 2.5, 32767.4, 32767.5, 32768.0, 2147483647.4,
          2147483647.5, 2147483648.0, 30000000000.5]
NEG = [0.5, 1.5, 32768.5, 32768.6, 32769.0, 2147483648.5, 2147483649.0,
       30000000000.5]


def flit(t, v, neg):
    e = lit(t, v)
    return U('-', e) if neg else e


def fb(cid, t, v, neg, body):
    x = var('x' + t)
    return mk(cid, [], [L(x, flit(t, v, neg))] + body, family='fbound',
              tags=('types', 'fbound'), budget=300)


k = 0
for t in '!#':
    tn = 's' if t == '!' else 'd'
    for neg, vals in ((False, VALUES), (True, NEG)):
        for v in vals:
            if t == '!' and v in (2147483647.4, 2147483647.5, 32767.4):
                # not representable in binary32: same cell as a neighbour
                continue
            x = var('x' + t)
            tag = '%s_%s%d' % (tn, 'm' if neg else 'p', k)
            k += 1
            fb('fb_int_' + tag, t, v, neg,
               [L(var('r&'), F('INT', x)), P(var('r&'), ';',
                                             B('+', var('r&'), LG(0)))])
            fb('fb_int_expr_' + tag, t, v, neg,
               [L(var('y#'), B('/', F('INT', x), I(2))), P(var('y#')),
                ('if1', B('>', F('INT', x), I(100)), [P(S('big'))],
                 [P(S('small'))])])
            fb('fb_cint_' + tag, t, v, neg,
               [L(var('r%'), F('CINT', x)), P(var('r%'), ';',
                                              B('+', var('r%'), I(0)))])
            fb('fb_clng_' + tag, t, v, neg,
               [L(var('r&'), F('CLNG', x)), P(var('r&'), ';',
                                              B('+', var('r&'), LG(0)))])
            fb('fb_abs_neg_' + tag, t, v, neg,
               [L(var('y' + t), F('ABS', x)), L(var('z' + t), U('-', x)),
                P(B('=', var('y' + t), var('z' + t)), ';',
                  B('<', x, var('y' + t)))])
            fb('fb_asg_i_' + tag, t, v, neg,
               [L(var('r%'), x), P(var('r%'), ';', B('+', var('r%'), I(0)))])
            fb('fb_asg_l_' + tag, t, v, neg,
               [L(var('r&'), x), P(var('r&'), ';',
                                   B('+', var('r&'), LG(0)))])
            fb('fb_idiv_mod_' + tag, t, v, neg,
               [L(var('r&'), B('\\', x, I(2))), P(var('r&')),
                L(var('q&'), B('MOD', x, I(7))), P(var('q&'))])
            fb('fb_idx_' + tag, t, v, neg,
               [P(('idx', 'arr%', [x]))])

# values that are not representable in binary32 / literal conversions that a
# compile-time rule may fold: SINGLE literal into DOUBLE variable and back,
# negative zero, literal arithmetic mixing the two float types
for k2, v in enumerate([0.1, 0.7, 16777217.0, 1.3, 123456.789]):
    mk('fb_lit_s_to_d_%d' % k2, [],
       [L(var('d#'), lit('!', v)), P(var('d#')),
        L(var('s!'), lit('#', v)), P(var('s!')),
        L(var('e#'), B('+', lit('!', v), lit('#', v))), P(var('e#')),
        L(var('f#'), B('*', lit('!', v), lit('!', v))), P(var('f#')),
        P(B('=', var('d#'), lit('#', v)), ';', B('=', var('s!'), lit('!', v)))],
       family='fbound', tags=('types', 'fbound'), budget=300)
mk('fb_neg_zero', [],
   [P(U('-', lit('!', 0.0))), P(U('-', lit('#', 0.0))),
    L(var('z!'), lit('!', 0.0)), P(U('-', var('z!'))),
    P(B('*', U('-', lit('#', 1.0)), lit('#', 0.0)))],
   family='fbound', tags=('types', 'fbound'), budget=300)
