from vlib.runner import Obl, run_property


def run(tier):
    obs = [
        Obl('fmt_integer', 'props.ob_c16', 'fmt_integer', 60, twin='fmt_integer_twin', family='format'),
        Obl('fmt_long', 'props.ob_c16', 'fmt_long', 60, twin='fmt_long_twin', family='format'),
    ]
    return run_property('C16', tier, 'other', obs, 'x', [], [], {})
