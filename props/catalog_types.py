"""Type-pair catalogue: every binary operator group x every ordered pair of
numeric operand types, assignment/argument/condition/selector conversions for
every type, mixed-type CASE clauses, builtins with off-type arguments.
Integral operands are symbolic (restricted to a boundary set where a float
or a bitwise operator is involved, because CrossHair realises those);
SINGLE/DOUBLE operands are concrete."""
from vlib.qbspec import Sub, lit, var
from props.catalog import (mk, B, U, F, P, L, I, LG, S)

NUM = '%&!#'
TN = {'%': 'i', '&': 'l', '!': 's', '#': 'd', '$': 'str'}
FVAL = {'!': [7.5, 2.25], '#': [-2.5, 1000000.5]}
SMALL = '(-32768, -1, 0, 2, 32767)'
SMALL_L = '(-2147483648, -1, 0, 70000, 2147483647)'


def operands(types):
    """-> (input names, head stmts, exprs, small-set precondition)."""
    names, head, exprs, pres = [], [], [], []
    for i, t in enumerate(types):
        n = 'v%d%s' % (i, t)
        if t in '%&':
            names.append(n)
            pres.append('x%d in %s' % (len(names) - 1,
                                       SMALL if t == '%' else SMALL_L))
        else:
            head.append(L(var(n), lit(t, abs(FVAL[t][i % 2]))
                          if FVAL[t][i % 2] >= 0
                          else U('-', lit(t, -FVAL[t][i % 2]))))
        exprs.append(var(n))
    return names, head, exprs, pres


def result_var(e, name='r'):
    from vlib.qbspec import etype
    return var(name + etype(e))


GROUPS = {
    'arith': ['+', '-', '*'],
    'fdiv': ['/'],
    'divs': ['\\', 'MOD'],
    'cmp': ['=', '<>', '<', '>', '<=', '>='],
    'logic': ['AND', 'OR', 'XOR', 'EQV', 'IMP'],
}

for lt in NUM:
    for rt in NUM:
        for g, ops in GROUPS.items():
            names, head, (a, b), pres = operands([lt, rt])
            has_float = lt in '!#' or rt in '!#'
            body = []
            for k, op in enumerate(ops):
                e = B(op, a, b)
                rv = result_var(e, 'r%d' % k)
                # store into a variable of the result type, then reuse it
                body.append(L(rv, e))
                body.append(P(rv, ';', B('+', rv, rv) if g != 'cmp'
                              else U('NOT', rv)))
            pre = None
            if has_float or g in ('logic', 'fdiv'):
                # floats and bitwise operators are realised by CrossHair:
                # integral operands range over a boundary set
                pre = ' and '.join(pres) if pres else None
            mk('tp_%s_%s%s' % (g, TN[lt], TN[rt]), names, body, pre=pre,
               head=head, family='typepair', tags=('types',), budget=600)

# NOT on every type
for t in NUM:
    names, head, (a,), pres = operands([t])
    mk('tp_not_' + TN[t], names,
       [L(result_var(U('NOT', a)), U('NOT', a)),
        P(result_var(U('NOT', a)))],
       pre=' and '.join(pres) if pres else None, head=head,
       family='typepair', tags=('types',))

# assignment conversion: every ordered pair
for st in NUM:
    for dt in NUM:
        if st == dt:
            continue
        names, head, (a,), pres = operands([st])
        pre = (' and '.join(pres) if pres else None) \
            if (st in '!#' or dt in '!#') else None
        mk('tp_assign_%s_to_%s' % (TN[st], TN[dt]), names,
           [L(var('d' + dt), a), P(var('d' + dt), ';',
                                   B('+', var('d' + dt), var('d' + dt)))],
           pre=pre, head=head, family='typeconv', tags=('types',))

# conditions of every type in every conditional construct
for t in NUM:
    names, head, (a,), pres = operands([t])
    pre = ' and '.join(pres) if (pres and t in '!#') else (
        None if t == '%' else (pres[0] if pres else None))
    c = var('c' + t)
    body = [
        ('if', [(a, [P(S('if-t'))])], [P(S('if-f'))]),
        ('if1', a, [P(S('if1-t'))], [P(S('if1-f'))]),
        L(c, a),
        ('while', c, [P(S('w')), L(c, B('-', c, c))]),
        ('do', 'do_while', a, [P(S('dw')), ('exit', 'do')]),
        ('do', 'do_until', a, [P(S('du')), ('exit', 'do')]),
        L(var('n%'), I(0)),
        ('do', 'loop_while', a,
         [L(var('n%'), B('+', var('n%'), I(1))), P(S('lw')),
          ('if1', B('>=', var('n%'), I(2)), [('exit', 'do')], None)]),
        L(var('n%'), I(0)),
        ('do', 'loop_until', a,
         [L(var('n%'), B('+', var('n%'), I(1))), P(S('lu')),
          ('if1', B('>=', var('n%'), I(2)), [('exit', 'do')], None)]),
        P(S('end')),
    ]
    mk('tp_cond_' + TN[t], names, body,
       pre=(pres[0] if pres else None), head=head, family='typecond',
       tags=('types',), budget=900)

# SELECT CASE: selector type x clause value types (mixed)
for st in NUM:
    for ct in NUM:
        names, head, (sel,), pres = operands([st])
        c1 = lit(ct, 1) if ct in '%&' else lit(ct, 1.0)
        c5 = lit(ct, 5) if ct in '%&' else lit(ct, 5.0)
        other = '&' if ct == '%' else '%'
        lo = lit(other, 2)
        body = [
            ('select', sel,
             [([('eq', c1)], [P(S('one'))]),
              ([('to', lo, c5)], [P(S('2..5'))]),        # mixed-type bounds
              ([('to', c5, lit(other, 7))], [P(S('5..7'))]),
              ([('is', '<', c1), ('eq', lit(other, 100))],
               [P(S('small-or-100'))])],
             [P(S('else'))]),
            P(S('done'))]
        mk('tp_select_%s_%s' % (TN[st], TN[ct]), names, body,
           pre=(pres[0] if pres else None), head=head, family='typeselect',
           tags=('types',))

# FOR: variable type x bound types
for vt in NUM:
    for bt in NUM:
        if vt == bt:
            continue
        one = lit(bt, 1) if bt in '%&' else lit(bt, 1.0)
        three = lit(bt, 3) if bt in '%&' else lit(bt, 3.0)
        mk('tp_for_%s_%s' % (TN[vt], TN[bt]), [],
           [('for', var('i' + vt), one, three, one, [P(var('i' + vt))]),
            ('for', var('j' + vt), three, one, U('-', one),
             [P(var('j' + vt))]),
            P(var('i' + vt), ';', var('j' + vt))],
           family='typefor', tags=('types',), budget=900)

# by-value argument conversion and FUNCTION return conversion
for pt in NUM:
    for at in NUM:
        if pt == at:
            continue
        names, head, (a,), pres = operands([at])
        arg = B('+', a, a) if at in '%&' else B('*', a, lit(at, 1.0))
        mk('tp_arg_%s_to_%s' % (TN[at], TN[pt]), names,
           [('callsub', 'show', [arg]),
            P(('call', 'conv' + pt, [arg]))],
           pre=' and '.join(pres) if pres else None, head=head,
           subs=[Sub('show', 'sub', [('p' + pt, None)],
                     [P(var('p' + pt), ';', B('+', var('p' + pt),
                                              var('p' + pt)))]),
                 Sub('conv' + pt, 'function', [('q' + at, None)],
                     [('setret', var('q' + at))])],
           family='typearg', tags=('types',), budget=700)

# records passed to procedures; record assignment
mk('tp_record_param', ['a%'],
   [L(('fld', var('p'), ['x'], '%'), var('a%')),
    L(('fld', var('p'), ['y'], '&'), LG(9)),
    ('callsub', 'showpt', [var('p')]),
    P(('fld', var('p'), ['x'], '%'))],
   head=[('dim', 'dim', [('p', None, 'pt')])],
   types=[('pt', [('x%', None), ('y&', None)])],
   subs=[Sub('showpt', 'sub', [('q', 'pt')],
             [P(('fld', var('q'), ['x'], '%'), ';',
                ('fld', var('q'), ['y'], '&')),
              L(('fld', var('q'), ['x'], '%'), I(3))])],
   family='typearg', tags=('types',))

# array subscripts of every type
for t in NUM:
    names, head, (a,), pres = operands([t])
    mk('tp_index_' + TN[t], names,
       [L(('idx', 'arr%', [a]), I(4)), P(('idx', 'arr%', [a]))],
       pre=(pres[0] if pres else None), head=head, family='typeindex',
       tags=('types',))

# builtins with off-type numeric arguments
for t in '&!#':
    names, head, (a,), pres = operands([t])
    mk('tp_builtin_args_' + TN[t], names,
       [P(F('LEN', F('SPACE$', B('AND', a, lit('%', 3))))),
        P(F('LEFT$', S('abcdef'), a)),
        P(F('MID$', S('abcdef'), lit('%', 2), a)),
        P(F('STRING$', lit('%', 2), B('+', lit(t, 65 if t == '&' else 65.0),
                                      B('*', a, lit('%', 0)))))],
       pre=(pres[0] if pres else None), head=head, family='typebuiltin',
       tags=('types',))
    mk('tp_cvt_' + TN[t], names,
       [P(F('CINT', a)), P(F('CLNG', a)), P(F('INT', a)), P(F('ABS', a))],
       pre=(pres[0] if pres else None), head=head, family='typebuiltin',
       tags=('types',))
