"""ON ERROR / RESUME programs for C10 (all need -g builds)."""
from vlib.qbspec import Sub
from props.catalog import (mk, B, U, F, P, L, I, LG, S, var)  # noqa

HANDLER_NEXT = [('label', 'handler'), P(S('E'), ';', F('ERR')),
                ('resume', 'next')]


def er(cid, names, body, **kw):
    kw.setdefault('family', 'onerror')
    kw.setdefault('budget', 900)
    return mk(cid, names, body, tags=('onerror', 'resume'), **kw)


TAIL = [('gosub', 'chk'), ('callsub', 'fin', []), P(S('end')), ('end',),
        ('label', 'chk'), P(S('gosub ok')), ('return',)]
FIN = [Sub('fin', 'sub', [], [P(S('sub ok'))])]

er('er_resume_next', ['a%', 'b%'],
   [('onerror', 'handler'),
    P(B('\\', var('a%'), var('b%'))),
    P(B('*', var('a%'), var('b%'))),
    P(S('after'))] + TAIL + HANDLER_NEXT, subs=FIN)
er('er_resume_same', ['a%', 'b%'],
   [('onerror', 'handler'),
    P(B('\\', var('a%'), var('b%'))),
    P(S('after'))] + TAIL +
   [('label', 'handler'), P(S('E'), ';', F('ERR')), L(var('b%'), I(1)),
    L(var('a%'), I(7)), ('resume', 'same')], subs=FIN)
er('er_expr_depth', ['a%', 'b%', 'c%'],
   [('onerror', 'handler'),
    L(var('r&'), B('+', LG(1), B('*', var('c%'),
                                 B('\\', var('a%'), var('b%'))))),
    P(var('r&')),
    L(('idx', 'arr%', [var('c%')]), B('+', var('a%'), var('b%'))),
    P(S('after'))] + TAIL + HANDLER_NEXT, subs=FIN,
   pre='-3 <= x2 <= 12')
er('er_string_fn', ['s$', 'n%'],
   [('onerror', 'handler'),
    P(S('['), ';', F('MID$', var('s$'), var('n%')), ';', S(']')),
    P(F('ASC', var('s$'))),
    P(S('after'))] + TAIL + HANDLER_NEXT, subs=FIN, strlen=2,
   pre='-2 <= x1 <= 4')
er('er_in_sub', ['a%', 'b%'],
   [('onerror', 'handler'),
    ('callsub', 'work', [var('a%'), var('b%')]),
    P(S('after')), ('end',),
    ('label', 'handler'), P(S('E'), ';', F('ERR')), ('end',)],
   subs=[Sub('work', 'sub', [('x%', None), ('y%', None)],
             [P(S('in')), P(B('\\', var('x%'), var('y%'))), P(S('out'))])])
er('er_in_function_expr', ['a%', 'b%'],
   [('onerror', 'handler'),
    P(B('+', I(1), ('call', 'quot%', [var('a%'), var('b%')]))),
    P(S('after')), ('end',),
    ('label', 'handler'), P(S('E'), ';', F('ERR')), ('end',)],
   subs=[Sub('quot%', 'function', [('x%', None), ('y%', None)],
             [('setret', B('\\', var('x%'), var('y%')))])])
er('er_on_error_next', ['a%', 'b%'],
   [('onerror', 'next'),
    P(B('\\', var('a%'), var('b%'))),
    P(S('mid'), ';', F('ERR')),
    L(var('r%'), B('*', var('a%'), var('b%'))),
    P(var('r%'))] + TAIL, subs=FIN)
er('er_goto0', ['a%', 'b%'],
   [('onerror', 'handler'), ('onerror', 0),
    P(B('\\', var('a%'), var('b%'))), P(S('after')), ('end',),
    ('label', 'handler'), P(S('E')), ('resume', 'next')])
er('er_goto0_in_handler', ['a%', 'b%'],
   [('onerror', 'handler'),
    P(B('\\', var('a%'), var('b%'))), P(S('after')), ('end',),
    ('label', 'handler'), P(S('E')), ('onerror', 0), P(S('unreached'))])
er('er_two_errors', ['a%', 'b%', 'c%'],
   [('onerror', 'handler'),
    P(B('\\', var('a%'), var('b%'))),
    P(B('\\', var('a%'), var('c%'))),
    P(B('+', var('a%'), var('a%'))),
    P(S('after'))] + TAIL + HANDLER_NEXT, subs=FIN)
er('er_in_for_body', ['a%', 'b%'],
   [('onerror', 'handler'),
    ('for', var('i%'), I(0), I(2), None,
     [P(B('\\', var('a%'), B('-', var('b%'), var('i%')))),
      P(S('body'), ';', var('i%'))]),
    P(S('after'))] + TAIL + HANDLER_NEXT, subs=FIN, budget=1500)
er('er_error_in_handler', ['a%', 'b%'],
   [('onerror', 'handler'),
    P(B('\\', var('a%'), var('b%'))), P(S('after')), ('end',),
    ('label', 'handler'), P(B('\\', var('a%'), var('b%'))),
    ('resume', 'next')])
er('er_falls_off_end', ['a%', 'b%'],
   [('onerror', 'handler'), ('goto', 'start'),
    ('label', 'handler'), P(S('E'), ';', F('ERR')), ('resume', 'next'),
    ('label', 'start'),
    P(S('v'), ';', B('\\', var('a%'), var('b%'))),
    L(var('q%'), B('+', I(1), B('*', var('a%'), var('b%')))),
    P(S('after'), ';', var('q%'))])
er('er_in_sub_then_return', ['a%', 'b%'],
   [('onerror', 'handler'), ('goto', 'start'),
    ('label', 'handler'), P(S('E'), ';', F('ERR')), ('resume', 'next'),
    ('label', 'start'),
    P(S('v'), ';', B('\\', var('a%'), var('b%'))),
    ('callsub', 'fin', []),
    P(S('after'))], subs=FIN)

# --- statements nested in other statements (statement records nest) -----
# error in the condition of a single-line IF on one iteration, then in a
# statement nested in the same IF on the next one (and vice versa)
er('er_if1_cond_then_nested', ['a%', 'b%'],
   [('onerror', 'handler'),
    ('for', var('i%'), I(0), I(1), None,
     [('if1', B('<>', B('\\', I(10), B('-', var('a%'), var('i%'))), I(0)),
       [P(B('\\', I(20), B('-', var('b%'), var('i%')))), P(S('t'))], None),
      P(S('n'), ';', var('i%'))]),
    P(S('after'))] + TAIL + HANDLER_NEXT, subs=FIN, budget=2500,
   pre='-1 <= x0 <= 2 and -1 <= x1 <= 2')
er('er_if1_else_nested', ['a%', 'b%', 'c%'],
   [('onerror', 'handler'),
    ('for', var('i%'), I(0), I(1), None,
     [('if1', B('>', B('\\', I(10), B('-', var('a%'), var('i%'))), I(0)),
       [P(S('t'))],
       [P(B('\\', I(20), B('-', var('b%'), var('i%')))), P(S('e'))]),
      P(S('n'))]),
    P(S('after'))] + TAIL + HANDLER_NEXT, subs=FIN, budget=2500,
   pre='-1 <= x0 <= 2 and -1 <= x1 <= 2')
# RESUME (same statement) after an error nested in a single-line IF whose
# condition failed earlier
er('er_if1_resume_same', ['a%', 'b%'],
   [('onerror', 'handler'),
    ('for', var('i%'), I(0), I(1), None,
     [('if1', B('<>', B('\\', I(10), B('+', var('a%'), var('i%'))), I(99)),
       [P(S('h'), ';', var('i%')),
        P(B('\\', I(20), B('+', var('b%'), var('i%'))))], None),
      P(S('n'))]),
    P(S('after'))] + TAIL +
   [('label', 'handler'), P(S('E'), ';', F('ERR')),
    ('if1', B('=', B('+', var('a%'), var('i%')), I(0)),
     [L(var('a%'), I(5))], [L(var('b%'), I(5))]),
    ('resume', 'same')], subs=FIN, budget=3000,
   pre='-2 <= x0 <= 1 and -2 <= x1 <= 1')
# errors in statements nested in block IF / SELECT / WHILE inside a loop
er('er_nested_blocks', ['a%', 'b%', 'c%'],
   [('onerror', 'handler'),
    ('for', var('i%'), I(0), I(1), None,
     [('if', [(B('=', var('i%'), I(0)),
               [P(B('\\', I(7), var('a%'))), P(S('b0'))]),
              (B('=', var('i%'), I(1)),
               [P(B('\\', I(8), var('b%'))), P(S('b1'))])],
       [P(S('else'))]),
      ('select', var('i%'),
       [([('eq', I(1))], [P(B('\\', I(9), var('c%'))), P(S('c1'))])],
       [P(S('c-else'))]),
      P(S('n'))]),
    P(S('after'))] + TAIL + HANDLER_NEXT, subs=FIN, budget=3000,
   pre='-1 <= x0 <= 1 and -1 <= x1 <= 1 and -1 <= x2 <= 1')
# a statement with pending operands that fails AFTER a user FUNCTION it
# called has returned, inside a GOSUB routine (the RETURN must still find
# its return address)
er('er_fail_after_call_in_gosub', ['a%', 'b%'],
   [('onerror', 'handler'),
    ('gosub', 'work'), P(S('back')),
    ('gosub', 'chk'), ('callsub', 'fin', []), P(S('end')), ('end',),
    ('label', 'work'),
    L(var('t&'), B('+', LG(100), B('\\', ('call', 'twice%', [var('a%')]),
                                  var('b%')))),
    P(S('t'), ';', var('t&')), ('return',),
    ('label', 'chk'), P(S('gosub ok')), ('return',)] + HANDLER_NEXT,
   subs=FIN + [Sub('twice%', 'function', [('x%', None)],
                   [P(S('in')), ('setret', B('*', var('x%'), I(2)))])],
   budget=1500, pre='-3 <= x0 <= 3')
er('er_fail_after_sub_call_args', ['a%', 'b%'],
   [('onerror', 'handler'),
    P(B('+', B('*', var('a%'), I(2)),
        B('\\', ('call', 'twice%', [B('+', var('a%'), I(1))]), var('b%')))),
    ('callsub', 'show', [B('\\', var('a%'), var('b%'))]),
    P(S('after'))] + TAIL + HANDLER_NEXT,
   subs=FIN + [Sub('twice%', 'function', [('x%', None)],
                   [('setret', B('*', var('x%'), I(2)))]),
               Sub('show', 'sub', [('v%', None)], [P(S('v'), ';', var('v%'))])],
   budget=1500, pre='-3 <= x0 <= 3')

# an ON ERROR GOTO handler that leaves with RETURN instead of RESUME (the
# error happened inside a GOSUB routine, with operands pending).  Needs no
# debug info, so it is also a -g / non -g pair for C08.
mk('er_handler_return', ['a%', 'b%'],
   [('onerror', 'handler'),
    ('gosub', 'work'), P(S('back')), ('end',),
    ('label', 'work'),
    L(var('t&'), B('+', LG(100), B('\\', var('a%'), var('b%')))),
    P(S('t'), ';', var('t&')), ('return',),
    ('label', 'handler'), P(S('E'), ';', F('ERR')), ('return',)],
   family='onerror', tags=('onerror',), budget=900)
