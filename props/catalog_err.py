"""ON ERROR / RESUME programs for C10 (all need -g builds)."""
from vlib.qbspec import Sub
from props.catalog import (mk, B, U, F, P, L, I, LG, S, var)  # noqa

HANDLER_NEXT = [('label', 'handler'), P(S('E'), ';', F('ERR')),
                ('resume', 'next')]


def er(cid, names, body, **kw):
    kw.setdefault('family', 'onerror')
    kw.setdefault('budget', 900)
    return mk(cid, names, body, tags=('onerror', 'resume'), **kw)


TAIL = [('gosub', 'chk'), ('callsub', 'fin', []), P(S('end')), ('end',),
        ('label', 'chk'), P(S('gosub ok')), ('return',)]
FIN = [Sub('fin', 'sub', [], [P(S('sub ok'))])]

er('er_resume_next', ['a%', 'b%'],
   [('onerror', 'handler'),
    P(B('\\', var('a%'), var('b%'))),
    P(B('*', var('a%'), var('b%'))),
    P(S('after'))] + TAIL + HANDLER_NEXT, subs=FIN)
er('er_resume_same', ['a%', 'b%'],
   [('onerror', 'handler'),
    P(B('\\', var('a%'), var('b%'))),
    P(S('after'))] + TAIL +
   [('label', 'handler'), P(S('E'), ';', F('ERR')), L(var('b%'), I(1)),
    L(var('a%'), I(7)), ('resume', 'same')], subs=FIN)
er('er_expr_depth', ['a%', 'b%', 'c%'],
   [('onerror', 'handler'),
    L(var('r&'), B('+', LG(1), B('*', var('c%'),
                                 B('\\', var('a%'), var('b%'))))),
    P(var('r&')),
    L(('idx', 'arr%', [var('c%')]), B('+', var('a%'), var('b%'))),
    P(S('after'))] + TAIL + HANDLER_NEXT, subs=FIN,
   pre='-3 <= x2 <= 12')
er('er_string_fn', ['s$', 'n%'],
   [('onerror', 'handler'),
    P(S('['), ';', F('MID$', var('s$'), var('n%')), ';', S(']')),
    P(F('ASC', var('s$'))),
    P(S('after'))] + TAIL + HANDLER_NEXT, subs=FIN, strlen=2,
   pre='-2 <= x1 <= 4')
er('er_in_sub', ['a%', 'b%'],
   [('onerror', 'handler'),
    ('callsub', 'work', [var('a%'), var('b%')]),
    P(S('after')), ('end',),
    ('label', 'handler'), P(S('E'), ';', F('ERR')), ('end',)],
   subs=[Sub('work', 'sub', [('x%', None), ('y%', None)],
             [P(S('in')), P(B('\\', var('x%'), var('y%'))), P(S('out'))])])
er('er_in_function_expr', ['a%', 'b%'],
   [('onerror', 'handler'),
    P(B('+', I(1), ('call', 'quot%', [var('a%'), var('b%')]))),
    P(S('after')), ('end',),
    ('label', 'handler'), P(S('E'), ';', F('ERR')), ('end',)],
   subs=[Sub('quot%', 'function', [('x%', None), ('y%', None)],
             [('setret', B('\\', var('x%'), var('y%')))])])
er('er_on_error_next', ['a%', 'b%'],
   [('onerror', 'next'),
    P(B('\\', var('a%'), var('b%'))),
    P(S('mid'), ';', F('ERR')),
    L(var('r%'), B('*', var('a%'), var('b%'))),
    P(var('r%'))] + TAIL, subs=FIN)
er('er_goto0', ['a%', 'b%'],
   [('onerror', 'handler'), ('onerror', 0),
    P(B('\\', var('a%'), var('b%'))), P(S('after')), ('end',),
    ('label', 'handler'), P(S('E')), ('resume', 'next')])
er('er_goto0_in_handler', ['a%', 'b%'],
   [('onerror', 'handler'),
    P(B('\\', var('a%'), var('b%'))), P(S('after')), ('end',),
    ('label', 'handler'), P(S('E')), ('onerror', 0), P(S('unreached'))])
er('er_two_errors', ['a%', 'b%', 'c%'],
   [('onerror', 'handler'),
    P(B('\\', var('a%'), var('b%'))),
    P(B('\\', var('a%'), var('c%'))),
    P(B('+', var('a%'), var('a%'))),
    P(S('after'))] + TAIL + HANDLER_NEXT, subs=FIN)
er('er_in_for_body', ['a%', 'b%'],
   [('onerror', 'handler'),
    ('for', var('i%'), I(0), I(2), None,
     [P(B('\\', var('a%'), B('-', var('b%'), var('i%')))),
      P(S('body'), ';', var('i%'))]),
    P(S('after'))] + TAIL + HANDLER_NEXT, subs=FIN, budget=1500)
er('er_error_in_handler', ['a%', 'b%'],
   [('onerror', 'handler'),
    P(B('\\', var('a%'), var('b%'))), P(S('after')), ('end',),
    ('label', 'handler'), P(B('\\', var('a%'), var('b%'))),
    ('resume', 'next')])
er('er_falls_off_end', ['a%', 'b%'],
   [('onerror', 'handler'), ('goto', 'start'),
    ('label', 'handler'), P(S('E'), ';', F('ERR')), ('resume', 'next'),
    ('label', 'start'),
    P(S('v'), ';', B('\\', var('a%'), var('b%'))),
    L(var('q%'), B('+', I(1), B('*', var('a%'), var('b%')))),
    P(S('after'), ';', var('q%'))])
er('er_in_sub_then_return', ['a%', 'b%'],
   [('onerror', 'handler'), ('goto', 'start'),
    ('label', 'handler'), P(S('E'), ';', F('ERR')), ('resume', 'next'),
    ('label', 'start'),
    P(S('v'), ';', B('\\', var('a%'), var('b%'))),
    ('callsub', 'fin', []),
    P(S('after'))], subs=FIN)
