"""C01 -- compiled programs do what their QBASIC source says.
Translation validation of each catalogue cell against the reference
interpreter (vlib/qbref.py), for all values of the symbolic inputs."""
import props.catalog_all  # noqa: F401
from vlib import harness as H
from vlib.runner import run_property
from props.common import (cell_obligations, select_cells, rot, seed, COMMON_ASSUMPTIONS,
                          REAL_FUNCTIONS)
from props import findings


def check_call(cell, cfg, args):
    a = (', ' + args) if args else ''
    return 'H.check_ref(%r, %d%s)' % (cell.cid, cfg, a)


def generate(tier):
    cells = select_cells('C01', tier,
                         [c for c in H.CATALOG.values() if c.ref], 3,
                         keep=('mix',))
    if tier == 'quick':
        cfgs = lambda c: [rot(c.cid, seed(), 6)]  # noqa: E731
        timeout = 90
    else:
        cfgs = lambda c: list(range(6))  # noqa: E731
        timeout = 240
    return cell_obligations('C01', 'c01_obl', check_call, cells, cfgs,
                            timeout, dbg_for_resume=True)


def run(tier):
    obls = generate(tier)
    return run_property(
        'C01', tier, 'translation_validation', obls,
        explanation=(
            'Each catalogue cell (a spec-AST program printed to BASIC text, '
            'compiled by the real compiler, run on the real VM with '
            'symbolic variable values) is compared with the reference '
            'interpreter vlib/qbref.py run in the same symbolically '
            'executed function: device trace and outcome class must agree '
            'on every path.  CrossHair explores all paths; z3 decides each '
            'branch; "Confirmed over all paths" = holds for every value in '
            'the precondition.'),
        assumptions=COMMON_ASSUMPTIONS + [
            'reference semantics as fixed in DESIGN.md 6a',
            'text of a symbolic integer in PRINT is abstracted to an '
            'injective token (vlib/rope.py); rendering is decided by '
            'C16/C17'],
        functions=REAL_FUNCTIONS,
        bounds={'program_shapes': len(H.CATALOG),
                'configs': '1 rotating config per cell (quick) / all 6 '
                           '(thorough)',
                'strings': 'len <= 4, printable ASCII',
                'loops': 'trip count bounded by each cell\'s precondition'},
        known_witnesses=findings.witnesses('C01'),
    )
