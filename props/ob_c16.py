"""C16 harness functions (integers only): number -> text -> number."""
from vlib import symqvm  # noqa: F401  (imports the real modules)
from qvm.utils import format_number
from qvm.cell import CellType

I16 = (-32768, 32767)
I32 = (-2**31, 2**31 - 1)


def _is_plain_decimal(text, n):
    """Independent check (no str()/int()): text is sign-or-blank followed by
    the decimal digits of |n| without superfluous leading zero."""
    if len(text) < 2:
        return False
    if n < 0:
        if text[0] != '-':
            return False
    else:
        if text[0] != ' ':
            return False
    digits = text[1:]
    if len(digits) > 1 and digits[0] == '0':
        return False
    v = 0
    for ch in digits:
        o = ord(ch)
        if o < 48 or o > 57:
            return False
        v = v * 10 + (o - 48)
    return v == (-n if n < 0 else n)


def fmt_integer(n: int) -> int:
    """
    pre: -32768 <= n <= 32767
    post: _ == 1
    """
    return 1 if _is_plain_decimal(format_number(n, CellType.INTEGER), n) else 0


def fmt_integer_twin(n: int) -> int:
    """
    pre: -32768 <= n <= 32767
    post: _ != 1
    """
    return 1 if _is_plain_decimal(format_number(n, CellType.INTEGER), n) else 0


def fmt_long(n: int) -> int:
    """
    pre: -2147483648 <= n <= 2147483647
    post: _ == 1
    """
    return 1 if _is_plain_decimal(format_number(n, CellType.LONG), n) else 0


def fmt_long_twin(n: int) -> int:
    """
    pre: -2147483648 <= n <= 2147483647
    post: _ != 1
    """
    return 1 if _is_plain_decimal(format_number(n, CellType.LONG), n) else 0


# ------------------------------------------------------------------ more
from vlib.foldharness import new_cpu           # noqa: E402
from vlib.symqvm import SymImpl                # noqa: E402
from qvm.machine import DataDevice, TerminalDevice  # noqa: E402
from qvm.cpu import QVM_DEVICES                # noqa: E402
from qvm.trap import Trapped                   # noqa: E402
from props import ob_units                     # noqa: E402


def _neg_same_digits(n, ctype):
    a = format_number(n, ctype)
    b = format_number(-n, ctype)
    return 1 if a[1:] == b[1:] else 0


def neg_integer(n: int) -> int:
    """
    pre: -32767 <= n <= 32767
    post: _ == 1
    """
    return _neg_same_digits(n, CellType.INTEGER)


def neg_integer_twin(n: int) -> int:
    """
    pre: -32767 <= n <= 32767
    post: _ != 1
    """
    return _neg_same_digits(n, CellType.INTEGER)


def neg_long(n: int) -> int:
    """
    pre: -2147483647 <= n <= 2147483647
    post: _ == 1
    """
    return _neg_same_digits(n, CellType.LONG)


def neg_long_twin(n: int) -> int:
    """
    pre: -2147483647 <= n <= 2147483647
    post: _ != 1
    """
    return _neg_same_digits(n, CellType.LONG)


def _print_vs_str(n, ctype):
    """PRINT n and STR$(n) show the same text (PRINT adds one blank)."""
    impl = SymImpl()
    cpu = new_cpu()
    dev = TerminalDevice(QVM_DEVICES['terminal']['id'], cpu, impl)
    cpu.push(CellType.INTEGER, 0)
    cpu.push(ctype, n)
    cpu.push(CellType.INTEGER, 2)
    dev._exec_print()
    printed = impl.trace[0][2]
    cpu.push(ctype, n)
    cpu._exec_ntos()
    s = cpu.stack.pop().value
    return 1 if printed == s + ' \r\n' else 0


def print_str_integer(n: int) -> int:
    """
    pre: -32768 <= n <= 32767
    post: _ == 1
    """
    return _print_vs_str(n, CellType.INTEGER)


def print_str_integer_twin(n: int) -> int:
    """
    pre: -32768 <= n <= 32767
    post: _ != 1
    """
    return _print_vs_str(n, CellType.INTEGER)


def print_str_long(n: int) -> int:
    """
    pre: -2147483648 <= n <= 2147483647
    post: _ == 1
    """
    return _print_vs_str(n, CellType.LONG)


def print_str_long_twin(n: int) -> int:
    """
    pre: -2147483648 <= n <= 2147483647
    post: _ != 1
    """
    return _print_vs_str(n, CellType.LONG)


class _Mod:
    n_global_cells = 0
    code = b''
    literals = []
    debug_info = None

    def __init__(self, data):
        self.data = data


def _value_of(text):
    """Integer denoted by sign-or-blank + digits (independent fold)."""
    neg = text[0] == '-'
    v = 0
    for ch in text[1:]:
        v = v * 10 + (ord(ch) - 48)
    return -v if neg else v


def _wf(text, maxdigits):
    if len(text) < 2 or len(text) > maxdigits + 1:
        return False
    if text[0] != ' ' and text[0] != '-':
        return False
    for ch in text[1:]:
        if not (48 <= ord(ch) <= 57):
            return False
    if len(text) > 2 and text[1] == '0':
        return False
    if text == '-0':
        return False
    return True


def _read_back(text, tchar):
    """READ and INPUT of the text PRINT/STR$ would show give the value
    back (or reject it iff it is out of range), and formatting that value
    gives the text back."""
    from qvm.cpu import QvmCpu
    ctype = CellType.INTEGER if tchar == '%' else CellType.LONG
    lo, hi = (-32768, 32767) if tchar == '%' else (-2147483648, 2147483647)
    want = _value_of(text)
    in_range = lo <= want <= hi
    item = ob_units._strip(text)          # DATA items arrive trimmed
    # READ
    cpu = QvmCpu(_Mod([[item]]))
    dev = DataDevice(QVM_DEVICES['data']['id'], cpu, None)
    cpu.push(CellType.INTEGER, 1 if tchar == '%' else 2)
    try:
        dev._exec_read()
        ok = True
    except Trapped:
        ok = False
    except Exception:
        return 0
    if ok != in_range:
        return 0
    if ok:
        cell = cpu.stack[-1]
        if cell.type != ctype or cell.value != want:
            return 0
        if format_number(cell.value, ctype) != text:
            return 0
    # INPUT (the line as typed: the text itself)
    res, cpu2, impl = ob_units.run_input(tchar, '', True, False,
                                         [text, '0'])
    if res != ('ok',):
        return 0
    got = cpu2.stack[-1]
    if got.type != ctype:
        return 0
    accepted_first = len(impl.trace) == 3
    if accepted_first != in_range:
        return 0
    if in_range and got.value != want:
        return 0
    return 1


def readback_integer(text: str) -> int:
    """
    pre: _wf(text, 6)
    post: _ == 1
    """
    return _read_back(text, '%')


def readback_integer_twin(text: str) -> int:
    """
    pre: _wf(text, 6)
    post: _ != 1
    """
    return _read_back(text, '%')


def readback_long(text: str) -> int:
    """
    pre: _wf(text, 10)
    post: _ == 1
    """
    return _read_back(text, '&')


def readback_long_twin(text: str) -> int:
    """
    pre: _wf(text, 10)
    post: _ != 1
    """
    return _read_back(text, '&')


VAL_VALUES = [0, 1, -1, 9, 10, -10, 99, 100, 32767, -32768, 32768, 65535,
              100000, 2147483647, -2147483648, 1000000000, -999999999]


def val_roundtrip():
    """VAL(STR$(n)) = n on a boundary table (native enumeration: VAL runs
    the pyparsing grammar, which cannot be executed symbolically)."""
    from vlib.symqvm import run_program
    for n in VAL_VALUES:
        t = '%' if -32768 <= n <= 32767 else '&'
        lit = ('%d%s' % (n, t)) if n >= 0 else ('(-%d%s)' % (-n, t)) \
            if n != -32768 and n != -2147483648 else None
        if lit is None:
            src = 'n%s = (-%d%s) - 1%s\n' % (t, -n - 1, t, t)
        else:
            src = 'n%s = %s\n' % (t, lit)
        src += 'PRINT (VAL(STR$(n%s)) = n%s)\n' % (t, t)
        trace, out, _ = run_program(src, 0, False, 200)
        if trace != [('terminal', 'print', '-1 \r\n')]:
            return 0
    return 1


# ------------------------------------------------------------------ floats
# SINGLE / DOUBLE are outside the for-all-values claim (no SMT theory of
# shortest decimal rendering; CrossHair realises floats).  This is a NATIVE
# ENUMERATION over a boundary table: plain and exponent forms, exponents
# ending in 0, values at the precision limits, both signs.
FLOAT_DOUBLES = [
    0.1, 1.5, 2.25, 1e-5, 1.5e-7, 123456.7, 1234567.0, 16777217.0,
    4294967296.0, 99999999999.0, 1e15, 1e16, 1.5e16, 1.5e20, 2.0 ** 67,
    1e100, 1.5e-300, 1.25e-10, 2.5e-20, 1.7976931348623157e308,
    2.2250738585072014e-308, 0.30000000000000004, 1e22, 3.5e30, 1.25e200,
    123456789012345.6, 1e-4, 9.999e-5,
]
FLOAT_SINGLES = [
    0.1, 1.5, 2.25, 123456.7, 1234567.0, 16777216.0, 1.5e10, 1.5e20, 1e30,
    3.4028235e38, 1.17549435e-38, 1e-5, 2.5e-10, 1e-20, 0.3, 1e10,
]


def _single(v):
    import struct
    return struct.unpack('>f', struct.pack('>f', v))[0]


def float_roundtrip():
    """For each table value x (and -x): PRINT x and STR$(x) show the same
    digits; x and -x the same digits; VAL(STR$(x)) = x; READ and INPUT of the
    shown text into a variable of the same type give x back."""
    from vlib.symqvm import run_program
    from qvm.cpu import QvmCpu
    for tchar, ctype, table in (('#', CellType.DOUBLE, FLOAT_DOUBLES),
                                ('!', CellType.SINGLE, FLOAT_SINGLES)):
        for x0 in table:
            for x in (x0, -x0):
                if tchar == '!':
                    x = _single(x)
                text = format_number(x, ctype)
                # sign-or-blank, same digits for x and -x
                other = format_number(-x, ctype)
                if text[1:] != other[1:] or text[0] not in ' -' or \
                        (text[0] == '-') != (x < 0):
                    print('sign/digits:', repr(text), repr(other))
                    return 0
                # STR$ / PRINT / VAL through a real program that gets the
                # value through DATA (no literal syntax involved)
                item = ob_units._strip(text)
                src = ('DATA %s\nREAD x%s\nPRINT x%s\nPRINT STR$(x%s)\n'
                       'y%s = VAL(STR$(x%s))\nPRINT (y%s = x%s)\n'
                       % (item, tchar, tchar, tchar, tchar, tchar, tchar,
                          tchar))
                trace, out, m = run_program(src, 0, False, 400)
                want = [('terminal', 'print', text + ' \r\n'),
                        ('terminal', 'print', text + '\r\n'),
                        ('terminal', 'print', '-1 \r\n')]
                if trace != want:
                    print('program for %r (%s): %r, expected %r'
                          % (x, tchar, trace, want))
                    return 0
                # READ gives x back exactly
                cpu = QvmCpu(_Mod([[item]]))
                dev = DataDevice(QVM_DEVICES['data']['id'], cpu, None)
                cpu.push(CellType.INTEGER, 3 if tchar == '!' else 4)
                try:
                    dev._exec_read()
                except Exception as e:  # noqa
                    print('READ of %r raised %r' % (item, e))
                    return 0
                cell = cpu.stack[-1]
                if cell.type != ctype or cell.value != x:
                    print('READ of %r gave %r, expected %r' % (item, cell, x))
                    return 0
                # INPUT of the text as typed
                res, cpu2, impl = ob_units.run_input(tchar, '', True, False,
                                                     [text, '0'])
                if res != ('ok',) or len(impl.trace) != 3:
                    print('INPUT of %r not accepted: %r' % (text, res))
                    return 0
                got = cpu2.stack[-1]
                if got.type != ctype or got.value != x:
                    print('INPUT of %r gave %r, expected %r' % (text, got, x))
                    return 0
    return 1
