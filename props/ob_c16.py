"""C16 harness functions (integers only): number -> text -> number."""
from vlib import symqvm  # noqa: F401  (imports the real modules)
from qvm.utils import format_number
from qvm.cell import CellType

I16 = (-32768, 32767)
I32 = (-2**31, 2**31 - 1)


def _is_plain_decimal(text, n):
    """Independent check (no str()/int()): text is sign-or-blank followed by
    the decimal digits of |n| without superfluous leading zero."""
    if len(text) < 2:
        return False
    if n < 0:
        if text[0] != '-':
            return False
    else:
        if text[0] != ' ':
            return False
    digits = text[1:]
    if len(digits) > 1 and digits[0] == '0':
        return False
    v = 0
    for ch in digits:
        o = ord(ch)
        if o < 48 or o > 57:
            return False
        v = v * 10 + (o - 48)
    return v == (-n if n < 0 else n)


def fmt_integer(n: int) -> int:
    """
    pre: -32768 <= n <= 32767
    post: _ == 1
    """
    return 1 if _is_plain_decimal(format_number(n, CellType.INTEGER), n) else 0


def fmt_integer_twin(n: int) -> int:
    """
    pre: -32768 <= n <= 32767
    post: _ != 1
    """
    return 1 if _is_plain_decimal(format_number(n, CellType.INTEGER), n) else 0


def fmt_long(n: int) -> int:
    """
    pre: -2147483648 <= n <= 2147483647
    post: _ == 1
    """
    return 1 if _is_plain_decimal(format_number(n, CellType.LONG), n) else 0


def fmt_long_twin(n: int) -> int:
    """
    pre: -2147483648 <= n <= 2147483647
    post: _ != 1
    """
    return 1 if _is_plain_decimal(format_number(n, CellType.LONG), n) else 0
