"""The fixed, enumerated catalogue of spec programs ("cells") shared by
C01, C02.3, C03, C04.3, C07, C08.  Shapes are enumerated here; values are
symbolic in the obligations generated from them.
"""
from vlib.qbspec import Prog, Sub, lit, var
from vlib.harness import Cell, register, CATALOG  # noqa: F401

SENT = {'%': 12001, '&': 1200001}


def inputs(*names):
    """Returns (prologue statements, input descriptors)."""
    pro = []
    desc = []
    for i, n in enumerate(names):
        t = n[-1]
        if t == '$':
            s = '~%d~' % i
        else:
            s = SENT[t] + i
        pro.append(('let', var(n), lit(t, s)))
        desc.append((t, s))
    pro.append(('beep',))
    return pro, desc


def B(op, l, r):
    return ('bin', op, l, r)


def U(op, e):
    return ('un', op, e)


def F(name, *args):
    return ('fn', name, list(args))


def P(*items):
    return ('print', list(items))


def L(lv, e):
    return ('let', lv, e)


def I(v):
    return lit('%', v) if v >= 0 else U('-', lit('%', -v))


def LG(v):
    return lit('&', v) if v >= 0 else U('-', lit('&', -v))


def S(v):
    return lit('$', v)


def mk(cid, names, body, pre=None, budget=400, family='', subs=(),
       types=(), head=(), subs_first=False, **kw):
    pro, desc = inputs(*names)
    prog = Prog(list(head) + pro + list(body), subs=subs, types=types,
                subs_first=subs_first)
    return register(Cell(cid, prog, desc, pre=pre, budget=budget,
                         family=family, **kw))


TN = {'%': 'i', '&': 'l', '$': 's'}
OPN = {'+': 'add', '-': 'sub', '*': 'mul', '\\': 'idiv', 'MOD': 'mod',
       '/': 'div'}

# ---------------------------------------------------------------- operators
for op in ('+', '-', '*', '\\', 'MOD'):
    for lt in '%&':
        for rt in '%&':
            a, b = 'a' + lt, 'b' + rt
            mk('bin_%s_%s%s' % (OPN[op], TN[lt], TN[rt]), [a, b],
               [P(B(op, var(a), var(b)))], family='binop',
               tags=('arith',))

for lt in '%&':
    for rt in '%&':
        a, b = 'a' + lt, 'b' + rt
        mk('cmp_%s%s' % (TN[lt], TN[rt]), [a, b],
           [P(B('=', var(a), var(b)), ';', B('<>', var(a), var(b)), ';',
              B('<', var(a), var(b)), ';', B('>', var(a), var(b)), ';',
              B('<=', var(a), var(b)), ';', B('>=', var(a), var(b)))],
           family='cmp')

for t in '%&':
    mk('neg_' + TN[t], ['a' + t], [P(U('-', var('a' + t)))],
       family='unary')
    mk('abs_' + TN[t], ['a' + t], [P(F('ABS', var('a' + t)))],
       family='builtin')

mk('conv_assign_li', ['a&'], [L(var('r%'), var('a&')), P(var('r%'))],
   family='conv')
mk('conv_assign_il', ['a%'], [L(var('r&'), var('a%')), P(var('r&'))],
   family='conv')
mk('cint_l', ['a&'], [P(F('CINT', var('a&')))], family='builtin')
mk('clng_i', ['a%'], [P(F('CLNG', var('a%')))], family='builtin')
mk('int_i', ['a%'], [P(F('INT', var('a%')))], family='builtin')
mk('expr_nested', ['a%', 'b%', 'c&'],
   [P(B('+', B('*', var('a%'), var('b%')), var('c&'))),
    P(B('-', var('c&'), B('\\', var('a%'), var('b%'))))],
   family='binop')

# ---------------------------------------------------------------- strings
mk('str_concat_cmp', ['s$', 't$'],
   [P(B('+', var('s$'), var('t$'))),
    P(B('=', var('s$'), var('t$')), ';', B('<', var('s$'), var('t$')), ';',
      B('>=', var('s$'), var('t$')))],
   family='string')
mk('str_len_asc', ['s$'],
   [P(F('LEN', var('s$'))), P(F('ASC', var('s$')))], family='string')
mk('str_left', ['s$', 'n%'], [P(F('LEFT$', var('s$'), var('n%')))],
   pre='-2 <= x1 <= 6', family='string', strlen=4)
mk('str_right', ['s$', 'n%'], [P(F('RIGHT$', var('s$'), var('n%')))],
   pre='-2 <= x1 <= 6', family='string')
mk('str_mid2', ['s$', 'n%'], [P(F('MID$', var('s$'), var('n%')))],
   pre='-2 <= x1 <= 6', family='string')
mk('str_mid3', ['s$', 'n%', 'm%'],
   [P(F('MID$', var('s$'), var('n%'), var('m%')))], pre='-2 <= x1 <= 6 and -2 <= x2 <= 6', family='string', strlen=4)
mk('str_instr2', ['s$', 't$'], [P(F('INSTR', var('s$'), var('t$')))],
   pre='len(x1) >= 1', family='string')
mk('str_instr3', ['n%', 's$', 't$'],
   [P(F('INSTR', var('n%'), var('s$'), var('t$')))],
   pre='(-1 <= x0 <= 6) and len(x2) >= 1', family='string', strlen=4)
for _fn in ('LTRIM$', 'RTRIM$', 'UCASE$', 'LCASE$'):
    mk('str_' + _fn[:-1].lower(), ['s$'],
       [P(S('['), ';', F(_fn, var('s$')), ';', S(']'))], family='string',
       strlen=3)
mk('str_space', ['n%'], [P(F('LEN', F('SPACE$', var('n%'))))],
   pre='x0 <= 40', family='string')
mk('str_string_s', ['n%', 's$'],
   [P(F('STRING$', var('n%'), var('s$')))], pre='x0 <= 6',
   family='string')
# constant string sub-expressions next to a run-time string (what a
# compile-time rule may fold)
mk('str_literal_fold', ['s$'],
   [P(B('+', var('s$'), B('+', S('a'), S('b')))),
    P(B('+', B('+', S('c'), S('')), var('s$'))),
    L(var('t$'), B('+', S('x'), S('y'))), P(var('t$'), ';', F('LEN', var('t$'))),
    P(B('=', B('+', S('a'), S('b')), var('s$')))],
   family='string')
mk('str_assign', ['s$'], [L(var('t$'), B('+', var('s$'), S('x'))),
                          P(var('t$'), ';', var('s$'))], family='string')

# ---------------------------------------------------------------- control
mk('if_block', ['a%', 'b%'],
   [('if', [(B('<', var('a%'), var('b%')), [P(S('lt'))]),
            (B('=', var('a%'), var('b%')), [P(S('eq'))])],
     [P(S('gt'))]),
    P(S('done'))], family='control')
mk('if_single', ['a%'],
   [('if1', var('a%'), [P(S('t'))], [P(S('f'))]),
    ('if1', B('>', var('a%'), I(5)), [P(S('big'))], None),
    P(S('done'))], family='control')
# ELSEIF conditions that a compiler pass replaces as a whole node: a bare
# FUNCTION call, a bare CONST, a constant expression; errors inside them
mk('if_elseif_call_const', ['a%', 'b%'],
   [('const', 'K%', I(0)),
    ('if', [(B('=', var('a%'), I(1)), [P(S('one'))]),
            (('call', 'big%', [B('\\', var('a%'), var('b%'))]),
             [P(S('big'))]),
            (var('K%'), [P(S('const'))]),
            (B('-', I(2), I(2)), [P(S('zero'))]),
            (B('>', var('b%'), I(3)), [P(S('b>3'))])],
     [P(S('else'))]),
    P(S('done'))],
   subs=[Sub('big%', 'function', [('x%', None)],
             [('setret', B('>', var('x%'), I(9)))])],
   family='control', pre='-2 <= x1 <= 5')
mk('if_elseif_call_noelse', ['a%', 'b%'],
   [('if', [(B('=', var('a%'), I(1)), [P(S('one'))]),
            (('call', 'big%', [B('\\', var('a%'), var('b%'))]),
             [P(S('big'))])],
     None),
    ('while', ('call', 'big%', [B('*', var('a%'), I(200))]),
     [L(var('a%'), B('-', var('a%'), I(100))), P(S('w'))]),
    P(S('done'))],
   subs=[Sub('big%', 'function', [('x%', None)],
             [('setret', B('>', var('x%'), I(9)))])],
   family='control', pre='-2 <= x1 <= 5 and -3 <= x0 <= 150', budget=900)
mk('if_long_cond', ['a&'],
   [('if', [(var('a&'), [P(S('t'))])], [P(S('f'))])], family='control')
mk('for_up', ['a%', 'b%'],
   [('for', var('i%'), var('a%'), var('b%'), None, [P(var('i%'))]),
    P(var('i%'))],
   pre='x1 - x0 <= 2', budget=600, family='loop')
mk('for_down', ['a%', 'b%'],
   [('for', var('i%'), var('a%'), var('b%'), I(-1), [P(var('i%'))]),
    P(var('i%'))],
   pre='x0 - x1 <= 2', budget=600, family='loop')
mk('for_step', ['a%', 'b%', 'c%'],
   [('for', var('i%'), var('a%'), var('b%'), var('c%'), [P(var('i%'))]),
    P(var('i%'))],
   pre='x2 != 0 and (x1 - x0) // x2 <= 2', budget=600, family='loop')
mk('for_long', ['a&', 'b&'],
   [('for', var('i&'), var('a&'), var('b&'), LG(2), [P(var('i&'))]),
    P(var('i&'))],
   pre='x1 - x0 <= 4', budget=600, family='loop')
mk('for_exit', ['a%'],
   [('for', var('i%'), I(1), I(3), None,
     [('if1', B('=', var('i%'), var('a%')), [('exit', 'for')], None),
      P(var('i%'))]),
    P(S('end'), ';', var('i%'))], budget=600, family='loop')
mk('while_count', ['a%'],
   [('while', B('>', var('a%'), I(0)),
     [P(var('a%')), L(var('a%'), B('-', var('a%'), I(1)))]),
    P(S('done'))], pre='x0 <= 3', budget=600, family='loop')
for kind in ('do_while', 'do_until', 'loop_while', 'loop_until'):
    cond = B('>', var('a%'), I(0))
    if kind.endswith('until'):
        cond = B('<=', var('a%'), I(0))
    mk(kind, ['a%'],
       [('do', kind, cond,
         [P(var('a%')), L(var('a%'), B('-', var('a%'), I(1)))]),
        P(S('done'))], pre='x0 <= 3', budget=600, family='loop')
mk('do_exit', ['a%'],
   [('do', 'forever', None,
     [L(var('a%'), B('+', var('a%'), I(1))),
      ('if1', B('>', var('a%'), I(2)), [('exit', 'do')], None),
      P(var('a%'))]),
    P(S('out'), ';', var('a%'))], pre='-2 <= x0', budget=600,
   family='loop')
mk('select_int', ['a%', 'b%'],
   [('select', var('a%'),
     [([('eq', I(1)), ('eq', var('b%'))], [P(S('one-or-b'))]),
      ([('to', I(2), I(4))], [P(S('2..4'))]),
      ([('is', '<', I(0))], [P(S('neg'))])],
     [P(S('else'))]),
    P(S('done'))], family='select')
mk('select_noelse', ['a&'],
   [('select', var('a&'),
     [([('is', '>=', LG(70000))], [P(S('big'))]),
      ([('eq', LG(5))], [])],
     None),
    P(S('done'))], family='select')
mk('select_str', ['s$'],
   [('select', var('s$'),
     [([('eq', S('a'))], [P(S('is-a'))]),
      ([('to', S('b'), S('d'))], [P(S('b..d'))])],
     [P(S('other'))])], family='select')
mk('gosub_ret', ['a%'],
   [('gosub', 'work'), P(S('back'), ';', var('a%')),
    ('if1', B('<', var('a%'), I(2)), [('gosub', 'work')], None),
    P(S('end'), ';', var('a%')), ('end',),
    ('label', 'work'), L(var('a%'), B('+', var('a%'), I(1))),
    ('return',)], pre='x0 <= 100', family='jump')
mk('goto_loop', ['a%'],
   [('label', 'top'),
    ('if1', B('>=', var('a%'), I(2)), [('goto', 'fin')], None),
    P(var('a%')), L(var('a%'), B('+', var('a%'), I(1))), ('goto', 'top'),
    ('label', 'fin'), P(S('out'))], pre='x0 >= -1', budget=600,
   family='jump')

# ------------------------------------------------------------- procedures
mk('sub_byref', ['a%', 'b%'],
   [('callsub', 'addto', [var('a%'), var('b%')]),
    P(var('a%'), ';', var('b%')),
    ('callsub', 'addto', [B('+', var('a%'), I(0)), var('b%')]),
    P(var('a%'), ';', var('b%'))],
   subs=[Sub('addto', 'sub', [('x%', None), ('y%', None)],
             [L(var('x%'), B('+', var('x%'), var('y%'))),
              L(var('y%'), I(7))])],
   family='proc')
mk('func_val', ['a%', 'b&'],
   [P(('call', 'twice&', [B('+', var('a%'), I(0))]), ';',
      ('call', 'twice&', [var('b&')]))],
   subs=[Sub('twice&', 'function', [('x&', None)],
             [('setret', B('*', var('x&'), LG(2)))])],
   family='proc')
mk('func_rec', ['n%'],
   [P(('call', 'sumto&', [var('n%')]))],
   pre='0 <= x0 <= 3', budget=900,
   subs=[Sub('sumto&', 'function', [('k%', None)],
             [('if', [(B('<=', var('k%'), I(0)),
                       [('setret', LG(0))])],
               [('setret', B('+', var('k%'),
                             ('call', 'sumto&',
                              [B('-', var('k%'), I(1))])))])])],
   family='proc')
mk('sub_locals_fresh', ['a%'],
   [('callsub', 'work', [var('a%')]), ('callsub', 'work', [var('a%')])],
   subs=[Sub('work', 'sub', [('x%', None)],
             [P(var('lv%')), L(var('lv%'), var('x%')),
              ('dim', 'static', [('keep%', None, None)]),
              L(var('keep%'), B('+', var('keep%'), I(1))),
              P(var('lv%'), ';', var('keep%'))])],
   family='proc')
mk('shared_var', ['a%'],
   [L(var('g%'), var('a%')), ('callsub', 'show', []),
    P(var('g%'))],
   head=[('dim', 'shared', [('g%', None, None)])],
   subs=[Sub('show', 'sub', [],
             [P(var('g%')), L(var('g%'), B('+', var('g%'), I(1)))])],
   pre='x0 < 32767', family='proc')

# ------------------------------------------------------ arrays and records
mk('arr_1d', ['i%', 'v%'],
   [L(('idx', 'a%', [I(2)]), I(22)), L(('idx', 'a%', [I(3)]), I(33)),
    L(('idx', 'a%', [var('i%')]), var('v%')),
    P(('idx', 'a%', [I(2)]), ';', ('idx', 'a%', [I(3)]), ';',
      ('idx', 'a%', [I(4)]))],
   head=[('dim', 'dim', [('a%', [(I(2), I(4))], None)])],
   family='array')
mk('arr_2d', ['i%', 'j%', 'v&'],
   [L(('idx', 'm&', [I(0), I(-1)]), LG(1)),
    L(('idx', 'm&', [I(1), I(0)]), LG(2)),
    L(('idx', 'm&', [var('i%'), var('j%')]), var('v&')),
    P(('idx', 'm&', [I(0), I(-1)]), ';', ('idx', 'm&', [I(0), I(0)]), ';',
      ('idx', 'm&', [I(1), I(-1)]), ';', ('idx', 'm&', [I(1), I(0)]))],
   head=[('dim', 'dim', [('m&', [(I(0), I(1)), (I(-1), I(0))], None)])],
   family='array')
mk('arr_3d', ['i%', 'j%', 'k%', 'v%'],
   [L(('idx', 'c%', [I(1), I(0), I(2)]), I(102)),
    L(('idx', 'c%', [I(0), I(1), I(2)]), I(12)),
    L(('idx', 'c%', [I(1), I(1), I(1)]), I(111)),
    L(('idx', 'c%', [var('i%'), var('j%'), var('k%')]), var('v%')),
    P(('idx', 'c%', [I(1), I(0), I(2)]), ';',
      ('idx', 'c%', [I(0), I(1), I(2)]), ';',
      ('idx', 'c%', [I(1), I(1), I(1)]), ';',
      ('idx', 'c%', [I(0), I(0), I(1)]), ';',
      ('idx', 'c%', [I(1), I(1), I(2)]))],
   head=[('dim', 'dim', [('c%', [(I(0), I(1)), (I(0), I(1)), (I(1), I(2))],
                          None)])],
   family='array')
mk('arr_bounds_fn', ['d%'],
   [P(F('LBOUND', ('arrname', 'm&'), var('d%')), ';',
      F('UBOUND', ('arrname', 'm&'), var('d%')))],
   head=[('dim', 'dim', [('m&', [(I(0), I(1)), (I(-1), I(3))], None)])],
   family='array')
mk('rec_fields', ['a%', 'b&'],
   [L(('fld', var('p'), ['x'], '%'), var('a%')),
    L(('fld', var('p'), ['y'], '&'), var('b&')),
    L(var('z%'), I(5)),
    P(('fld', var('p'), ['x'], '%'), ';', ('fld', var('p'), ['y'], '&'),
      ';', ('fld', var('p'), ['s'], '$'), ';', S('|'), ';', var('z%'))],
   head=[('dim', 'dim', [('p', None, 'pt')])],
   types=[('pt', [('x%', None), ('y&', None), ('s$', None)])],
   family='record')
mk('rec_array', ['i%', 'v%'],
   [L(('fld', ('idx', 'ps', [I(1)]), ['x'], '%'), I(11)),
    L(('fld', ('idx', 'ps', [I(2)]), ['y'], '&'), LG(22)),
    L(('fld', ('idx', 'ps', [var('i%')]), ['x'], '%'), var('v%')),
    P(('fld', ('idx', 'ps', [I(1)]), ['x'], '%'), ';',
      ('fld', ('idx', 'ps', [I(1)]), ['y'], '&'), ';',
      ('fld', ('idx', 'ps', [I(2)]), ['x'], '%'), ';',
      ('fld', ('idx', 'ps', [I(2)]), ['y'], '&'))],
   head=[('dim', 'dim', [('ps', [(I(1), I(2))], 'pt')])],
   types=[('pt', [('x%', None), ('y&', None)])],
   family='record')
mk('byref_elem_field', ['a%'],
   [L(('idx', 'arr%', [I(1)]), I(10)),
    L(('fld', var('p'), ['y'], '%'), I(20)),
    ('callsub', 'bump', [('idx', 'arr%', [I(1)]), var('a%')]),
    ('callsub', 'bump', [('fld', var('p'), ['y'], '%'), var('a%')]),
    P(('idx', 'arr%', [I(0)]), ';', ('idx', 'arr%', [I(1)]), ';',
      ('fld', var('p'), ['x'], '%'), ';', ('fld', var('p'), ['y'], '%'),
      ';', var('a%'))],
   head=[('dim', 'dim', [('arr%', [(I(0), I(1))], None)]),
         ('dim', 'dim', [('p', None, 'pt')])],
   types=[('pt', [('x%', None), ('y%', None)])],
   subs=[Sub('bump', 'sub', [('t%', None), ('d%', None)],
             [L(var('t%'), B('+', var('t%'), var('d%')))])],
   family='record')
mk('const_use', ['a%'],
   [P(B('+', var('a%'), var('k%'))), P(var('big&'))],
   head=[('const', 'k%', I(7)),
         ('const', 'big&', B('*', LG(300), LG(300)))],
   family='const')

# ------------------------------------------------------------------ INPUT
mk('input_two_then_gosub', [],
   [('input', None, ';', [var('a%'), var('b&')]),
    ('gosub', 'show'), P(S('back')), ('end',),
    ('label', 'show'), P(var('a%'), ';', var('b&')), ('return',)],
   lines=1, tail_lines=['1,1'], slow=True, family='input', budget=600)
mk('input_prompt_str', [],
   [('input', 'Name', ',', [var('n$'), var('k%')]),
    P(var('n$'), ';', var('k%')),
    ('callsub', 'after', []), P(S('end'))],
   subs=[Sub('after', 'sub', [], [P(S('in sub'))])],
   lines=1, tail_lines=['x,1'], slow=True, family='input', budget=600)
mk('input_into_elem_field', [],
   [('input', 'v', ';', [('idx', 'arr%', [I(1)]),
                         ('fld', var('p'), ['y'], '&')]),
    P(('idx', 'arr%', [I(0)]), ';', ('idx', 'arr%', [I(1)]), ';',
      ('fld', var('p'), ['x'], '%'), ';', ('fld', var('p'), ['y'], '&'))],
   head=[('dim', 'dim', [('arr%', [(I(0), I(1))], None)]),
         ('dim', 'dim', [('p', None, 'pt')])],
   types=[('pt', [('x%', None), ('y&', None)])],
   lines=1, tail_lines=['1,1'], slow=True, family='input', budget=600)

# ------------------------------------------- storage (C04 sentinel programs)
mk('stor_unassigned_reads', ['a%', 'b%'],
   [L(var('x%'), var('a%')), L(var('y%'), var('b%')),
    P(('fld', var('r'), ['b'], '%'), ';', ('fld', var('r'), ['s'], '$'), ';',
      S('|'), ';', ('idx', 'arr%', [I(1)]), ';', var('x%'), ';', var('y%')),
    L(('fld', var('r'), ['a'], '%'), I(5)),
    P(('fld', var('r'), ['a'], '%'), ';', ('fld', var('r'), ['b'], '%'), ';',
      var('x%'), ';', var('y%'), ';', ('idx', 'arr%', [I(0)]), ';',
      ('idx', 'arr%', [I(2)]))],
   head=[('dim', 'dim', [('x%', None, None)]),
         ('dim', 'dim', [('y%', None, None)]),
         ('dim', 'dim', [('r', None, 'rt')]),
         ('dim', 'dim', [('arr%', [(I(0), I(2))], None)])],
   types=[('rt', [('a%', None), ('b%', None), ('s$', None)])],
   family='storage')
mk('stor_nested_record', ['v%', 'w&'],
   [L(('fld', var('o'), ['p', 'x'], '%'), I(1)),
    L(('fld', var('o'), ['p', 'y'], '&'), LG(2)),
    L(('fld', var('o'), ['q', 'x'], '%'), I(3)),
    L(('fld', var('o'), ['q', 'y'], '&'), LG(4)),
    L(('fld', var('o'), ['n'], '%'), I(5)),
    L(('fld', var('o'), ['q', 'x'], '%'), var('v%')),
    L(('fld', var('o'), ['p', 'y'], '&'), var('w&')),
    P(('fld', var('o'), ['p', 'x'], '%'), ';',
      ('fld', var('o'), ['p', 'y'], '&'), ';',
      ('fld', var('o'), ['q', 'x'], '%'), ';',
      ('fld', var('o'), ['q', 'y'], '&'), ';',
      ('fld', var('o'), ['n'], '%'), ';', var('z%'))],
   head=[('dim', 'dim', [('o', None, 'outer')]),
         ('dim', 'dim', [('z%', None, None)])],
   types=[('pt', [('x%', None), ('y&', None)]),
          ('outer', [('p', 'pt'), ('q', 'pt'), ('n%', None)])],
   family='storage')
mk('stor_array_of_records_sym', ['i%', 'v%'],
   [L(('fld', ('idx', 'ps', [I(0)]), ['x'], '%'), I(10)),
    L(('fld', ('idx', 'ps', [I(0)]), ['y'], '&'), LG(11)),
    L(('fld', ('idx', 'ps', [I(1)]), ['x'], '%'), I(20)),
    L(('fld', ('idx', 'ps', [I(2)]), ['y'], '&'), LG(31)),
    L(('fld', ('idx', 'ps', [var('i%')]), ['y'], '&'), var('v%')),
    P(('fld', ('idx', 'ps', [I(0)]), ['x'], '%'), ';',
      ('fld', ('idx', 'ps', [I(0)]), ['y'], '&'), ';',
      ('fld', ('idx', 'ps', [I(1)]), ['x'], '%'), ';',
      ('fld', ('idx', 'ps', [I(1)]), ['y'], '&'), ';',
      ('fld', ('idx', 'ps', [I(2)]), ['x'], '%'), ';',
      ('fld', ('idx', 'ps', [I(2)]), ['y'], '&'), ';', var('k%'))],
   head=[('dim', 'dim', [('ps', [(I(0), I(2))], 'pt')]),
         ('dim', 'dim', [('k%', None, None)])],
   types=[('pt', [('x%', None), ('y&', None)])],
   family='storage')
mk('stor_recursion_fresh_locals', ['n%'],
   [('callsub', 'down', [var('n%')]), P(var('n%'))],
   pre='0 <= x0 <= 3', budget=1200,
   subs=[Sub('down', 'sub', [('k%', None)],
             [P(var('mine%')),
              L(var('mine%'), B('+', var('k%'), I(100))),
              ('if', [(B('>', var('k%'), I(0)),
                       [('callsub', 'down', [B('-', var('k%'), I(1))])])],
               None),
              P(var('mine%'), ';', var('k%'))])],
   family='storage')
mk('stor_shared_array_in_sub', ['i%', 'v&'],
   [L(('idx', 'g&', [I(1)]), LG(5)),
    ('callsub', 'setg', [var('i%'), var('v&')]),
    P(('idx', 'g&', [I(0)]), ';', ('idx', 'g&', [I(1)]), ';',
      ('idx', 'g&', [I(2)]), ';', var('h%'))],
   head=[('dim', 'shared', [('g&', [(I(0), I(2))], None)]),
         ('dim', 'shared', [('h%', None, None)])],
   subs=[Sub('setg', 'sub', [('k%', None), ('x&', None)],
             [L(('idx', 'g&', [var('k%')]), var('x&')),
              L(var('h%'), B('+', var('h%'), I(1)))])],
   family='storage')

# ------------------------------------------------- debugger evaluation (C13)
mk('dbg_eval_main', ['a%', 'b&', 'i%'],
   [L(('idx', 'arr&', [I(1)]), LG(11)), L(('idx', 'arr&', [I(2)]), var('b&')),
    L(('fld', var('p'), ['x'], '%'), var('a%')),
    L(('fld', var('p'), ['y'], '&'), LG(7)),
    L(('fld', var('o'), ['q', 'x'], '%'), I(9)),
    L(var('g%'), I(3)),
    P(var('a%')), P(var('b&')),
    P(B('+', var('a%'), var('k%'))),
    P(('idx', 'arr&', [var('i%')])),
    P(('fld', var('p'), ['x'], '%')), P(('fld', var('p'), ['y'], '&')),
    P(('fld', var('o'), ['q', 'x'], '%')),
    P(B('*', var('g%'), var('k%'))),
    P(B('<', var('a%'), var('b&'))),
    P(U('-', var('k%')))],
   head=[('const', 'k%', I(7)),
         ('dim', 'shared', [('g%', None, None)]),
         ('dim', 'dim', [('arr&', [(I(0), I(2))], None)]),
         ('dim', 'dim', [('p', None, 'pt')]),
         ('dim', 'dim', [('o', None, 'outer')])],
   types=[('pt', [('x%', None), ('y&', None)]),
          ('outer', [('q', 'pt'), ('n%', None)])],
   pre='-30000 <= x0 <= 30000 and -2 <= x2 <= 4', family='dbgeval',
   budget=900)
# arrays of rank 2 and 3 (with lower bounds), an array of records, a SHARED
# array seen from a SUB and a dynamic array, elements read with SYMBOLIC
# subscripts (out-of-range ones included)
mk('dbg_eval_arrays', ['i%', 'j%', 'k%'],
   [('for', var('x%'), I(0), I(1), None,
     [('for', var('y%'), I(1), I(3), None,
       [('for', var('z%'), I(0), I(2), None,
         [L(('idx', 'c%', [var('x%'), var('y%'), var('z%')]),
            B('+', B('+', B('*', var('x%'), I(100)),
                     B('*', var('y%'), I(10))), var('z%'))),
          L(('idx', 'd%', [var('x%'), var('y%'), var('z%')]),
            B('+', B('+', B('*', var('x%'), I(100)),
                     B('*', var('y%'), I(10))), B('+', var('z%'), I(1000))))
          ])])]),
    P(('idx', 'c%', [var('i%'), var('j%'), var('k%')])),
    P(('idx', 'd%', [var('i%'), var('j%'), var('k%')])),
    P(B('+', ('idx', 'c%', [I(1), I(3), I(2)]),
        ('idx', 'd%', [I(1), I(2), I(1)]))),
    ('callsub', 'peekit', [var('i%'), var('j%'), var('k%')])],
   head=[('dim', 'shared', [('c%', [(I(0), I(1)), (I(1), I(3)),
                                    (I(0), I(2))], None)]),
         L(var('n%'), I(2)),
         ('dim', 'dim', [('d%', [(I(0), I(1)), (I(1), I(3)),
                                 (I(0), var('n%'))], None)])],
   subs=[Sub('peekit', 'sub', [('a%', None), ('b%', None), ('c2%', None)],
             [P(('idx', 'c%', [var('a%'), var('b%'), var('c2%')]))])],
   pre='0 <= x0 <= 2 and 1 <= x1 <= 4 and 0 <= x2 <= 3', slow=True,
   family='dbgeval', budget=3000)
mk('dbg_eval_str', ['s$', 't$'],
   [L(('idx', 'n$', [I(1)]), var('t$')),
    P(var('s$')), P(B('+', var('s$'), S('!'))), P(('idx', 'n$', [I(1)])),
    P(B('=', var('s$'), var('t$'))), P(('idx', 'n$', [I(0)])),
    P(var('c$'))],
   head=[('const', 'c$', S('const')),
         ('dim', 'dim', [('n$', [(I(0), I(1))], None)])],
   family='dbgeval', strlen=2, budget=600)
mk('dbg_eval_procs', ['a%', 'n%'],
   [L(var('g&'), LG(100)),
    ('callsub', 'work', [var('a%'), B('+', var('a%'), I(1))]),
    P(('call', 'depth%', [var('n%')])),
    ('callsub', 'work', [var('a%'), I(5)])],
   head=[('dim', 'shared', [('g&', None, None)])],
   subs=[Sub('work', 'sub', [('x%', None), ('y%', None)],
             [('dim', 'static', [('calls%', None, None)]),
              L(var('calls%'), B('+', var('calls%'), I(1))),
              L(var('lc&'), B('+', var('g&'), var('y%'))),
              P(var('x%')), P(var('y%')), P(var('calls%')),
              P(var('lc&')), P(var('g&')),
              P(B('+', var('x%'), var('calls%')))]),
         Sub('depth%', 'function', [('k%', None)],
             [L(var('mine%'), B('*', var('k%'), I(2))),
              P(var('k%')), P(var('mine%')),
              ('if', [(B('>', var('k%'), I(0)),
                       [('setret', B('+', I(1),
                                     ('call', 'depth%',
                                      [B('-', var('k%'), I(1))])))])],
               [('setret', I(0))]),
              P(var('mine%'))])],
   pre='-30000 <= x0 <= 30000 and 0 <= x1 <= 2', family='dbgeval',
   budget=1500)

# two arrays of the SAME record type with different extents, the smaller one
# declared (and sized) first, followed by further variables: every location
# written with a sentinel, one element overwritten through a SYMBOLIC index
mk('stor_two_record_arrays', ['i%', 'v%'],
   [L(('fld', ('idx', 'pa', [I(0)]), ['x'], '%'), I(10)),
    L(('fld', ('idx', 'pa', [I(1)]), ['y'], '&'), LG(11)),
    L(('fld', ('idx', 'pb', [I(0)]), ['x'], '%'), I(20)),
    L(('fld', ('idx', 'pb', [I(2)]), ['x'], '%'), I(22)),
    L(('fld', ('idx', 'pb', [I(3)]), ['x'], '%'), I(23)),
    L(('fld', ('idx', 'pb', [I(3)]), ['y'], '&'), LG(24)),
    L(var('k%'), I(30)), L(var('m&'), LG(31)),
    L(('fld', ('idx', 'pb', [var('i%')]), ['y'], '&'), var('v%')),
    P(('fld', ('idx', 'pa', [I(0)]), ['x'], '%'), ';',
      ('fld', ('idx', 'pa', [I(1)]), ['y'], '&'), ';',
      ('fld', ('idx', 'pb', [I(0)]), ['x'], '%'), ';',
      ('fld', ('idx', 'pb', [I(2)]), ['x'], '%'), ';',
      ('fld', ('idx', 'pb', [I(2)]), ['y'], '&'), ';',
      ('fld', ('idx', 'pb', [I(3)]), ['x'], '%'), ';',
      ('fld', ('idx', 'pb', [I(3)]), ['y'], '&'), ';',
      var('k%'), ';', var('m&'))],
   head=[('dim', 'dim', [('pa', [(I(0), I(1))], 'pt')]),
         ('dim', 'dim', [('pb', [(I(0), I(3))], 'pt')]),
         ('dim', 'dim', [('k%', None, None)]),
         ('dim', 'dim', [('m&', None, None)])],
   types=[('pt', [('x%', None), ('y&', None)])],
   family='storage', pre='-1 <= x0 <= 5')

# a record (variable and array element) passed to procedures that access
# several fields, fields at non-zero offsets first, repeatedly, and hand
# the parameter on: the parameter must keep naming the caller's record
mk('stor_record_param_fields', ['a%', 'b&'],
   [L(('fld', var('r'), ['x'], '%'), var('a%')),
    L(('fld', var('r'), ['y'], '&'), var('b&')),
    L(('fld', var('r'), ['z'], '%'), I(3)),
    L(('fld', ('idx', 'ps', [I(1)]), ['x'], '%'), I(10)),
    L(('fld', ('idx', 'ps', [I(1)]), ['y'], '&'), LG(11)),
    L(('fld', ('idx', 'ps', [I(1)]), ['z'], '%'), I(12)),
    L(('fld', ('idx', 'ps', [I(2)]), ['x'], '%'), I(20)),
    L(var('k%'), I(99)),
    ('callsub', 'touch', [var('r')]),
    ('callsub', 'touch', [('idx', 'ps', [I(1)])]),
    P(('fld', var('r'), ['x'], '%'), ';', ('fld', var('r'), ['y'], '&'), ';',
      ('fld', var('r'), ['z'], '%'), ';', var('k%')),
    P(('fld', ('idx', 'ps', [I(1)]), ['x'], '%'), ';',
      ('fld', ('idx', 'ps', [I(1)]), ['y'], '&'), ';',
      ('fld', ('idx', 'ps', [I(1)]), ['z'], '%'), ';',
      ('fld', ('idx', 'ps', [I(2)]), ['x'], '%'), ';',
      ('fld', ('idx', 'ps', [I(2)]), ['y'], '&'))],
   head=[('dim', 'dim', [('r', None, 'pt3')]),
         ('dim', 'dim', [('ps', [(I(0), I(2))], 'pt3')]),
         ('dim', 'dim', [('k%', None, None)])],
   subs=[Sub('touch', 'sub', [('p', 'pt3')],
             [P(('fld', var('p'), ['z'], '%'), ';',
                ('fld', var('p'), ['y'], '&'), ';',
                ('fld', var('p'), ['x'], '%')),
              L(('fld', var('p'), ['y'], '&'),
                B('+', ('fld', var('p'), ['y'], '&'), LG(1))),
              L(('fld', var('p'), ['z'], '%'), I(7)),
              ('callsub', 'deeper', [var('p')]),
              P(('fld', var('p'), ['x'], '%'), ';',
                ('fld', var('p'), ['z'], '%'))]),
         Sub('deeper', 'sub', [('q', 'pt3')],
             [L(('fld', var('q'), ['z'], '%'),
                B('+', ('fld', var('q'), ['z'], '%'), I(1))),
              L(('fld', var('q'), ['x'], '%'), I(5))])],
   types=[('pt3', [('x%', None), ('y&', None), ('z%', None)])],
   family='storage', pre='-100 <= x0 <= 100 and -100000 <= x1 <= 100000',
   budget=900)
