"""Known-findings plumbing: /verif/known_findings.json lists genuine defects
that are recorded rather than repaired.  Each entry has a concrete witness
(replayed natively on every run) and, where an obligation would otherwise
rediscover it, an exclusion predicate that is added to that obligation's
precondition -- so a *different* violation of the same property is still
reported."""
import json
import os

from vlib import runner

_PATH = runner.KNOWN


def load():
    if not os.path.exists(_PATH):
        return {'findings': [], 'fixed': []}
    return json.load(open(_PATH))


def for_property(prop):
    return [f for f in load().get('findings', []) if f['property'] == prop]


def exclusions(prop, cell_id):
    """Extra precondition conjuncts for obligations derived from cell_id."""
    out = []
    for f in for_property(prop):
        for ex in f.get('exclude', []):
            if ex['cell'] == cell_id:
                out.append('not (%s)' % ex['when'])
    return out


def witnesses(prop):
    out = []
    for f in for_property(prop):
        w = f['witness']

        def still_fails(w=w):
            r = runner.replay(w['module'], w['func'], w['args'])
            if 'error' in r:
                raise RuntimeError(r)
            return not r.get('ok')
        out.append((f, still_fails))
    return out
