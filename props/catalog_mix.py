"""Feature-interaction cells: two loops related in every way the language
allows (sequential, nested, the outer body GOSUBs / CALLs / recurses into
code that runs the other loop, GOTO out of one loop into another and back),
for each pair of loop kinds, with SYMBOLIC bounds that make the two loops
differ in limit and step.  Hidden per-loop state (FOR limit / step
temporaries), frame layout and jump targets interact here."""
from vlib.qbspec import Sub
from props.catalog import (mk, B, U, F, P, L, I, LG, S, var)  # noqa


def loop(kind, v, lim, body, step=None):
    """A loop over variable v running v = 1.. up to lim (symbolic)."""
    if kind == 'for':
        return [('for', var(v), I(1), lim, step, body)]
    if kind == 'forstep':
        return [('for', var(v), lim, I(1), U('-', I(1)), body)]
    if kind == 'while':
        return [L(var(v), I(1)),
                ('while', B('<=', var(v), lim),
                 body + [L(var(v), B('+', var(v), I(1)))])]
    if kind == 'do':
        return [L(var(v), I(1)),
                ('do', 'loop_until', B('>', var(v), lim),
                 body + [L(var(v), B('+', var(v), I(1)))])]
    raise ValueError(kind)


KINDS = ['for', 'forstep', 'while', 'do']
PRE = '0 <= x0 <= 3 and 0 <= x1 <= 3'


def mx(cid, body, **kw):
    kw.setdefault('family', 'mix')
    kw.setdefault('budget', 4000)
    kw.setdefault('pre', PRE)
    return mk(cid, ['a%', 'b%'], body, tags=('mix',), **kw)


for ko in KINDS:
    for ki in KINDS:
        if (ko, ki) not in (('for', 'for'), ('for', 'forstep'),
                            ('forstep', 'for'), ('for', 'while'),
                            ('while', 'for'), ('do', 'for'), ('for', 'do'),
                            ('while', 'do')):
            continue
        inner = loop(ki, 'j%', var('b%'), [P(S('j'), ';', var('j%'))])
        tag = '%s_%s' % (ko, ki)
        # (a) the outer body GOSUBs to a routine that runs the inner loop
        mx('mix_gosub_' + tag,
           loop(ko, 'i%', var('a%'),
                [P(S('i'), ';', var('i%')), ('gosub', 'work')]) +
           [P(S('done'), ';', var('i%'), ';', var('j%')), ('end',),
            ('label', 'work')] + inner + [('return',)])
        # (b) nested
        mx('mix_nest_' + tag,
           loop(ko, 'i%', var('a%'), [P(S('i'), ';', var('i%'))] + inner) +
           [P(S('done'), ';', var('i%'), ';', var('j%'))])
        # (c) the outer body calls a SUB that runs the inner loop on its
        #     own local
        mx('mix_sub_' + tag,
           loop(ko, 'i%', var('a%'),
                [P(S('i'), ';', var('i%')),
                 ('callsub', 'work', [var('b%')])]) +
           [P(S('done'), ';', var('i%'))],
           subs=[Sub('work', 'sub', [('n%', None)],
                     loop(ki, 'k%', var('n%'),
                          [P(S('k'), ';', var('k%'))]))])

# (d) sequential loops of the same nesting level sharing nothing
mx('mix_seq_for_for',
   loop('for', 'i%', var('a%'), [P(var('i%'))]) +
   loop('for', 'i%', var('b%'), [P(var('i%'))], step=I(2)) +
   [P(S('done'), ';', var('i%'))])
# (e) recursion: each activation runs its own FOR
mx('mix_recursive_for',
   [('callsub', 'down', [var('a%')]), P(S('done'))],
   subs=[Sub('down', 'sub', [('n%', None)],
             [('for', var('k%'), I(1), var('n%'), None,
               [P(S('k'), ';', var('n%'), ';', var('k%')),
                ('if1', B('=', var('k%'), I(1)),
                 [('callsub', 'down', [B('-', var('n%'), I(1))])],
                 None)])])],
   pre='0 <= x0 <= 3 and 0 <= x1 <= 0')
# (f) GOTO out of a FOR body into code with another FOR, and back in
mx('mix_goto_out_and_back',
   [('for', var('i%'), I(1), var('a%'), None,
     [P(S('i'), ';', var('i%')), ('goto', 'away'), ('label', 'back'),
      P(S('b'))]),
    P(S('done'), ';', var('i%')), ('end',),
    ('label', 'away'),
    ('for', var('j%'), I(1), var('b%'), I(2), [P(S('j'), ';', var('j%'))]),
    ('goto', 'back')], ref=False,
   note='jump INTO a loop body: no structured reference semantics; used by '
        'the implementation-vs-implementation families only')
# (g) a FUNCTION with a FOR called from a FOR limit expression and body
mx('mix_func_in_for',
   [('for', var('i%'), I(1), ('call', 'tri%', [var('a%')]), None,
     [P(S('i'), ';', var('i%'), ';', ('call', 'tri%', [var('b%')]))]),
    P(S('done'), ';', var('i%'))],
   subs=[Sub('tri%', 'function', [('n%', None)],
             [('for', var('k%'), I(1), var('n%'), None,
               [L(var('s%'), B('+', var('s%'), var('k%')))]),
              ('setret', var('s%'))])],
   pre='0 <= x0 <= 2 and 0 <= x1 <= 3')

# (h) FOR whose loop variable is a by-reference parameter: the caller's
#     variable must follow the loop; an expression argument is a temporary
mx('mix_for_over_param',
   [L(var('c%'), var('a%')),
    ('callsub', 'count', [var('c%'), var('b%')]),
    P(S('c'), ';', var('c%')),
    ('callsub', 'count', [B('+', var('a%'), I(0)), var('b%')]),
    P(S('a'), ';', var('a%'))],
   subs=[Sub('count', 'sub', [('n%', None), ('lim%', None)],
             [('for', var('n%'), I(1), var('lim%'), None,
               [P(S('n'), ';', var('n%'))]),
              P(S('after'), ';', var('n%'))])])
mx('mix_for_over_param_fn',
   [P(('call', 'total&', [var('a%'), var('b%')])),
    P(S('a'), ';', var('a%'))],
   subs=[Sub('total&', 'function', [('n%', None), ('lim%', None)],
             [('for', var('n%'), var('lim%'), I(1), U('-', I(1)),
               [L(var('t&'), B('+', var('t&'), var('n%')))]),
              ('setret', B('+', var('t&'), var('n%')))])])

# (i) PRINT pipeline: items computed in different ways (literal, variable,
#     expression, builtin call, user FUNCTION call -- also one that prints
#     itself) in every position, with ; and , separators: the layout must
#     depend only on the values and separators (C17)
PSUBS = [Sub('sum%', 'function', [('x%', None), ('y%', None)],
             [('setret', B('+', B('MOD', var('x%'), I(100)),
                           B('MOD', var('y%'), I(100))))]),
         Sub('name$', 'function', [('x%', None)],
             [('setret', B('+', S('n'), F('CHR$', B('+', I(65),
                                                    B('MOD', F('ABS', B('MOD', var('x%'), I(20))), I(20))))))])]


def pr(cid, body, **kw):
    kw.setdefault('family', 'print')
    kw.setdefault('budget', 1500)
    kw.setdefault('pre', '-999 <= x0 <= 999 and -999 <= x1 <= 999')
    return mk(cid, ['a%', 'b%'], body, subs=PSUBS, tags=('mix', 'print'),
              **kw)


CALL = ('call', 'sum%', [var('a%'), var('b%')])
NAME = ('call', 'name$', [var('a%')])
pr('pr_fn_after_semicolon_then_comma',
   [P(S('Total:'), ';', CALL, ',', S('ok')),
    P(S('Total:'), ';', B('+', var('a%'), I(0)), ',', S('ok')),
    P(var('a%'), ';', CALL, ',', CALL, ',', S('z')),
    P(S('end'))])
pr('pr_fn_positions',
   [P(CALL, ',', S('first')),
    P(S('x'), ',', CALL, ';', S('mid'), ',', var('b%')),
    P(S('abcdefghijklmnop'), ';', NAME, ',', S('t'), ','),
    P(NAME, ';', NAME, ',', CALL, ';'),
    P(S('|'))])
pr('pr_builtin_items',
   [P(F('STR$', var('a%')), ';', F('LEN', F('STR$', var('b%'))), ',',
      F('ABS', var('a%')), ',', F('SPACE$', I(3)), ';', S('|')),
    P(F('LEFT$', S('hello world, this is long'), I(15)), ',', CALL, ',',
      S('q')),
    P(S('end'))])
