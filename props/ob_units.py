"""Unit harnesses for C17 (PRINT layout), C18 (INPUT), C19 (PRINT USING):
the real device methods are driven directly on a bare QvmCpu with a symbolic
stub as peripherals."""
from vlib import symqvm  # noqa: F401
from vlib.symqvm import SymImpl, BudgetExceeded
from vlib.foldharness import new_cpu
from qvm.cell import CellType, CellValue
from qvm.machine import TerminalDevice
from qvm.cpu import QVM_DEVICES
from qvm.trap import Trapped
from qvm.using import PrintUsingFormatter

CT = {'%': CellType.INTEGER, '&': CellType.LONG, '$': CellType.STRING,
      '!': CellType.SINGLE, '#': CellType.DOUBLE}


def _terminal(impl):
    cpu = new_cpu()
    dev = TerminalDevice(QVM_DEVICES['terminal']['id'], cpu, impl)
    return cpu, dev


# ------------------------------------------------------------------ C17
def num_text(v):
    return ('' if v < 0 else ' ') + str(v)


def ref_layout(items):
    """items: ('%'|'&', value) | ('$', text) | ';' | ','"""
    buf = ''
    for it in items:
        if it == ';':
            continue
        if it == ',':
            buf = buf + ' ' * (14 - len(buf) % 14)
            continue
        if it[0] == '$':
            buf = buf + it[1]
        else:
            buf = buf + num_text(it[1]) + ' '
    if not items or items[-1] not in (';', ','):
        buf = buf + '\r\n'
    return buf


def run_print(items):
    """Drive the real TerminalDevice._exec_print with the operand stack the
    code generator's protocol prescribes.  Returns the printed text or
    ('exc', name) / ('trap', code)."""
    impl = SymImpl()
    cpu, dev = _terminal(impl)
    nargs = 0
    for it in items:
        if it == ';':
            cpu.push(CellType.INTEGER, 1)
            nargs += 1
        elif it == ',':
            cpu.push(CellType.INTEGER, 2)
            nargs += 1
        else:
            cpu.push(CellType.INTEGER, 0)
            cpu.push(CT[it[0]], it[1])
            nargs += 2
    cpu.push(CellType.INTEGER, nargs)
    try:
        dev._exec_print()
    except Trapped as e:
        return ('trap', e.trap_code)
    except Exception as e:
        return ('exc', type(e).__name__)
    if len(cpu.stack) != 0:
        return ('stack', len(cpu.stack))
    out = ''
    for e in impl.trace:
        if e[0] != 'terminal' or e[1] != 'print':
            return ('trace', e)
        out = out + e[2]
    return out


def check_print(shape, *vals):
    """shape: string over i l s ; ,   vals: one per i/l/s in order."""
    items = []
    k = 0
    for ch in shape:
        if ch in ';,':
            items.append(ch)
        else:
            t = {'i': '%', 'l': '&', 's': '$'}[ch]
            items.append((t, vals[k]))
            k += 1
    got = run_print(items)
    if not isinstance(got, str):
        return 0
    return 1 if got == ref_layout(items) else 0


# ------------------------------------------------------------------ C18
def _num_field(text):
    """Reference: is `text` (already stripped) a well-formed number, and
    its exact decimal value as (sign, digits-int, exponent10) or None."""
    n = len(text)
    i = 0
    neg = False
    if i < n and text[i] in '+-':
        neg = text[i] == '-'
        i += 1
    mant = 0
    nd = 0
    scale = 0
    while i < n and 48 <= ord(text[i]) <= 57:
        mant = mant * 10 + (ord(text[i]) - 48)
        nd += 1
        i += 1
    if i < n and text[i] == '.':
        i += 1
        while i < n and 48 <= ord(text[i]) <= 57:
            mant = mant * 10 + (ord(text[i]) - 48)
            nd += 1
            scale += 1
            i += 1
    if nd == 0:
        return None
    exp = 0
    if i < n and text[i] in 'eEdD':
        i += 1
        eneg = False
        if i < n and text[i] in '+-':
            eneg = text[i] == '-'
            i += 1
        ed = 0
        ev = 0
        while i < n and 48 <= ord(text[i]) <= 57:
            ev = ev * 10 + (ord(text[i]) - 48)
            ed += 1
            i += 1
        if ed == 0:
            return None
        exp = -ev if eneg else ev
    if i != n:
        return None
    return (neg, mant, exp - scale)


def _round_half_even(neg, mant, e10):
    """Integer nearest to +-mant * 10**e10 (ties to even)."""
    if e10 >= 0:
        v = mant * (10 ** e10)
    else:
        den = 10 ** (-e10)
        q, r = divmod(mant, den)
        if 2 * r > den or (2 * r == den and q % 2 == 1):
            q += 1
        v = q
    return -v if neg else v


def _strip(s):
    i = 0
    j = len(s)
    while i < j and s[i] == ' ':
        i += 1
    while j > i and s[j - 1] == ' ':
        j -= 1
    return s[i:j]


def ref_input_line(line, types):
    """Returns the list of values to assign or None (Redo from start)."""
    fields = []
    cur = ''
    for ch in line:
        if ch == ',':
            fields.append(cur)
            cur = ''
        else:
            cur = cur + ch
    fields.append(cur)
    if len(fields) != len(types):
        return None
    vals = []
    for f, t in zip(fields, types):
        f = _strip(f)
        if t == '$':
            vals.append(f)
            continue
        nf = _num_field(f)
        if nf is None:
            return None
        if t in '%&':
            v = _round_half_even(*nf)
            lo, hi = (-32768, 32767) if t == '%' else \
                (-2147483648, 2147483647)
            if v < lo or v > hi:
                return None
            vals.append(v)
        else:
            # in range: the value must round to a finite number of the type
            from fractions import Fraction
            neg, mant, e10 = nf
            if e10 > 400:
                if mant != 0:
                    return None
                mag = Fraction(0)
            elif e10 < -500:
                mag = Fraction(0)
            else:
                mag = Fraction(mant) * (Fraction(10) ** e10)
            limit = (Fraction(2) ** 128 - Fraction(2) ** 103) if t == '!' \
                else (Fraction(2) ** 1024 - Fraction(2) ** 970)
            if mag >= limit:
                return None
            vals.append(('float', nf))
    return vals


def run_input(types, prompt, question, same_line, lines):
    impl = SymImpl(inputs=list(lines))
    cpu, dev = _terminal(impl)
    cpu.push(CellType.LONG, 424242)          # a sentinel below the frame
    cpu.push(CellType.INTEGER, -1 if same_line else 0)
    cpu.push(CellType.STRING, prompt)
    cpu.push(CellType.INTEGER, -1 if question else 0)
    tid = {'%': 1, '&': 2, '!': 3, '#': 4, '$': 5}
    for t in types:
        cpu.push(CellType.INTEGER, tid[t])
    cpu.push(CellType.INTEGER, len(types))
    try:
        dev._exec_input()
    except Trapped as e:
        return ('trap', e.trap_code), cpu, impl
    except BudgetExceeded:
        return ('exhausted',), cpu, impl
    except Exception as e:
        return ('exc', type(e).__name__), cpu, impl
    return ('ok',), cpu, impl


def check_input(types, prompt, question, same_line, *lines):
    """1..k response lines; all but the last accepted one must be rejected
    by the reference too."""
    res, cpu, impl = run_input(types, prompt, question, same_line, lines)
    # reference protocol
    exp_trace = []
    accepted = None
    for ln in lines:
        exp_trace.append(('terminal', 'print', prompt))
        if question:
            exp_trace.append(('terminal', 'print', '? '))
        exp_trace.append(('terminal', 'input', -1 if same_line else 0))
        vals = ref_input_line(ln, types)
        if vals is not None:
            accepted = vals
            break
        exp_trace.append(('terminal', 'print', 'Redo from start\r\n'))
    if accepted is None:
        # every scripted line is bad: the device must ask again
        exp_trace.append(('terminal', 'print', prompt))
        if question:
            exp_trace.append(('terminal', 'print', '? '))
        exp_trace.append(('terminal', 'input', -1 if same_line else 0))
        if res != ('exhausted',):
            return 0
        if impl.trace != exp_trace:
            return 0
        # nothing may be left behind by rejected lines
        return 1 if len(cpu.stack) == 1 else 0
    if res != ('ok',):
        return 0
    if impl.trace != exp_trace:
        return 0
    # stack: sentinel + one value per variable, first variable on top
    if len(cpu.stack) != 1 + len(types):
        return 0
    if cpu.stack[0].type != CellType.LONG or cpu.stack[0].value != 424242:
        return 0
    for k, (t, v) in enumerate(zip(types, accepted)):
        cell = cpu.stack[len(cpu.stack) - 1 - k]
        if cell.type != CT[t]:
            return 0
        if t in '!#':
            continue            # float value checked concretely elsewhere
        if cell.value != v:
            return 0
    return 1


# ------------------------------------------------------------------ C19
def run_using(fmt, values):
    try:
        f = PrintUsingFormatter(fmt)
        return f.format(list(values))
    except RuntimeError as e:
        return ('runtime', str(e))
    except Exception as e:
        return ('exc', type(e).__name__)


def ref_unescape(fmt):
    """Literal text of a format string with no field characters."""
    out = ''
    i = 0
    n = len(fmt)
    while i < n:
        if fmt[i] == '_' and i + 1 < n:
            out = out + fmt[i + 1]
            i += 2
        else:
            out = out + fmt[i]
            i += 1
    return out


def check_using_total(fmt):
    """C19 family A: for ANY format string the formatter is total: parsing
    never raises; formatting with one well-typed value per field never
    raises; a format with no field is copied (underscore escapes removed).
    """
    try:
        f = PrintUsingFormatter(fmt)
    except Exception:
        return 0
    vals = []
    nfields = 0
    for part in f.fmt_parts:
        if part[0] == 'num':
            vals.append(12.5)
            nfields += 1
        elif part[0] == 'str':
            vals.append('xyz')
            nfields += 1
    try:
        out = f.format(vals)
    except Exception:
        return 0
    if nfields == 0:
        # literal characters (and escaped ones) are copied unchanged
        has_field_char = False
        i = 0
        n = len(fmt)
        while i < n:
            ch = fmt[i]
            if ch == '_':
                i += 2
                continue
            if ch == '#' or ch == '&' or ch == '!':
                has_field_char = True
            i += 1
        if not has_field_char and out != ref_unescape(fmt):
            return 0
    # '&' prints the whole string, '!' its first character; values are
    # consumed left to right: with only string fields and literals the
    # output is fully determined
    only_str = nfields > 0 and all(p[0] != 'num' for p in f.fmt_parts)
    if only_str:
        exp = ''
        i = 0
        n = len(fmt)
        while i < n:
            ch = fmt[i]
            if ch == '_' and i + 1 < n:
                exp = exp + fmt[i + 1]
                i += 2
                continue
            if ch == '&':
                exp = exp + 'xyz'
            elif ch == '!':
                exp = exp + 'x'
            else:
                exp = exp + ch
            i += 1
        if out != exp:
            return 0
    return 1


def build_field(sign_begin, n_int, comma, n_dec, sign_end):
    """Text of one numeric field."""
    f = {0: '', 1: '+', 2: '-'}[sign_begin]
    ip = '#' * n_int
    if comma and n_int >= 2:
        ip = ip[:-1] + ',' + '#'        # a comma anywhere left of the point
    f += ip
    if n_dec >= 0:
        f += '.' + '#' * n_dec
    if sign_end == 1:
        f += '+'
    elif sign_end == 2:
        f += '-'
    return f


def ref_number(field, value):
    """Reference rendering of `value` in the numeric field text `field`
    (QBASIC rules as the property statement spells them out)."""
    from decimal import Decimal, ROUND_HALF_EVEN
    width = len(field)
    sign_begin = field[0] == '+'
    # a leading '-' is a sign position in qbee: '-' for a negative value,
    # nothing for the others (the position is padding)
    sign_end = field[-1] if (field[-1] in '+-' and field[0] not in '+-') \
        else ''
    core = field.strip('+-')
    comma = ',' in core
    n_dec = len(core) - core.index('.') - 1 if '.' in core else -1
    neg = value < 0
    d = Decimal(repr(abs(value)))
    q = Decimal(1) if n_dec <= 0 else Decimal(1).scaleb(-n_dec)
    d = d.quantize(q, rounding=ROUND_HALF_EVEN)
    digits = format(d, 'f')
    if n_dec == 0:
        digits = digits + '.'
    if n_dec == -1 and '.' in digits:
        digits = digits.split('.')[0]
    if comma:
        ip, _, fp = digits.partition('.')
        groups = []
        while len(ip) > 3:
            groups.insert(0, ip[-3:])
            ip = ip[:-3]
        groups.insert(0, ip)
        digits = ','.join(groups) + (('.' + fp) if '.' in digits else '')
    if sign_begin:
        text = ('-' if neg else '+') + digits
    elif sign_end == '+':
        text = digits + ('-' if neg else '+')
    elif sign_end == '-':
        text = digits + ('-' if neg else ' ')
    else:
        text = ('-' if neg else '') + digits
    if len(text) <= width:
        return ' ' * (width - len(text)) + text
    return '%' + text


USING_VALUES = [0, 1, -1, 7.25, -7.25, 9.996, 0.504, 999.6, -0.004, 1234567,
                12345.678]


def check_using_field(sign_begin, n_int, comma, n_dec, sign_end, vi,
                      prefix, suffix):
    """C19 family B: one numeric field between literal text."""
    if sign_begin and sign_end:
        return 2
    field = build_field(sign_begin, n_int, comma, n_dec, sign_end)
    value = USING_VALUES[vi]
    fmt = prefix + field + suffix
    got = run_using(fmt, [value])
    if not isinstance(got, str):
        return 0
    exp = ref_unescape(prefix) + ref_number(field, value) + \
        ref_unescape(suffix)
    return 1 if got == exp else 0


def check_using_two_fields(sep):
    """C19 family C (native enumeration): every ordered pair of numeric
    field structures (1-4 digit positions, comma or not, no point / 0-2
    decimals) separated by `sep`, with every ordered pair of catalogue
    values: each value is rendered in ITS OWN field's width / decimals /
    separators, values consumed left to right."""
    import itertools
    shapes = [(ni, cm, nd) for ni in (1, 2, 3, 4) for cm in (0, 1)
              for nd in (-1, 0, 1, 2)]
    vals = [0, 1, -1, 7.25, 999.6, 1234, 1.5]
    for s1, s2 in itertools.product(shapes, repeat=2):
        f1 = build_field(0, *s1, 0)
        f2 = build_field(0, *s2, 0)
        fmt = f1 + sep + f2
        for v1, v2 in itertools.product(vals, repeat=2):
            got = run_using(fmt, [v1, v2])
            exp = ref_number(f1, v1) + ref_unescape(sep) + ref_number(f2, v2)
            if got != exp:
                TWO_FIELD_FAILED.append((fmt, v1, v2, got, exp))
                print('PRINT USING %r; %r; %r -> %r, expected %r'
                      % (fmt, v1, v2, got, exp))
                return 0
    return 1


TWO_FIELD_FAILED = []


INPUT_BOUNDARY_LINES = [
    '32767', '32768', '-32768', '-32769', '32767.4', '32767.5', '32767.6',
    '32766.5', '-32768.5', '-32768.6', '2147483647', '2147483648',
    '-2147483648', '-2147483649', '2147483647.4', '2147483647.5',
    '2147483647.9', '2147483646.5', '-2147483648.5', '-2147483648.6',
    '2.1474836476e9', '2.147483647e9', '1e10', '3e4', '3.27675e4', '1d3',
    '0.5', '1.5', '2.5', '-0.5', '.5', '5.', '1e', 'e1', '1e+', '--1',
    '+1', '1 2', '', ' ', '1e400', 'nan', 'inf', '1_0', '0x10', '1,2',
]


def check_input_boundary():
    """C18 (native enumeration): boundary response lines for every numeric
    target type, alone and as the second of two fields."""
    for t in '%&!#':
        for line in INPUT_BOUNDARY_LINES:
            if ',' in line:
                continue
            if check_input(t, '', True, False, line, '1') != 1:
                print('INPUT %s answered %r' % (t, line))
                return 0
            if check_input('%' + t, 'v', True, False, '7,' + line,
                           '1,1') != 1:
                print('INPUT %%,%s answered %r' % (t, '7,' + line))
                return 0
    return 1
