"""Obligation scheduler: runs CrossHair (with adaptations) on generated
harness functions, parses verdicts, replays counterexamples natively, applies
the known-findings file, writes evidence, sets the exit status.

Exit codes: 0 = property held on everything explored (possibly with
KNOWN-FINDING lines), 1 = reproduced, unlisted violation, 3 = harness error.
"""
import ast
import concurrent.futures as cf
import importlib
import json
import os
import re
import subprocess
import sys
import time

VERIF = os.path.dirname(os.path.dirname(os.path.abspath(__file__)))
PY = os.path.join(VERIF, '.venv', 'bin', 'python')
CHRUN = os.path.join(VERIF, 'vlib', 'chrun.py')
BUILD = os.path.join(VERIF, 'build')
EVID = os.path.join(VERIF, 'evidence')
REPLAY_DIR = os.path.join(EVID, 'replay')
KNOWN = os.path.join(VERIF, 'known_findings.json')
NCPU = int(os.environ.get('VERIF_JOBS', '0')) or min(16, os.cpu_count() or 4)

DISCHARGED = 'DISCHARGED'
VIOLATION = 'VIOLATION'
INCONCLUSIVE = 'INCONCLUSIVE'
HARNESS_ERROR = 'HARNESS-ERROR'
BOUND = 'BOUND-TOO-SMALL'
REFUTED = 'REFUTED'          # expected verdict of reachability twins


class Obl:
    """One proof obligation = one harness function (plus optional twin)."""

    def __init__(self, oid, module, func, timeout=60, twin=None, family='',
                 desc='', sample=None, kind='crosshair', finding_key=None,
                 functions=()):
        self.oid = oid
        self.module = module
        self.func = func
        self.timeout = timeout
        self.twin = twin
        self.family = family
        self.desc = desc
        self.sample = sample
        self.kind = kind
        self.finding_key = finding_key
        self.functions = list(functions)
        self.batch = None         # (key, max group size) or None
        self.native_args = None
        # results
        self.verdict = None
        self.detail = ''
        self.twin_verdict = None
        self.time_s = 0.0
        self.cex = None


class HarnessWriter:
    """Generates build/<name>.py modules holding harness functions."""

    def __init__(self, name, header):
        self.name = name
        self.lines = [header.rstrip('\n'), '']
        self.n = 0

    def add(self, fname, params, pre, body, post='_', twin=True):
        """params: 'a: int, b: int'; pre: python expr or None;
        body: source lines (list) ending with a return of an int code /
        bool; post: postcondition over _ ."""
        def emit(name, postcond):
            self.lines.append('def %s(%s) -> int:' % (name, params))
            self.lines.append('    """')
            if pre:
                self.lines.append('    pre: %s' % pre)
            self.lines.append('    post: %s' % postcond)
            self.lines.append('    """')
            for ln in body:
                self.lines.append('    ' + ln)
            self.lines.append('')
        emit(fname, post)
        if twin:
            emit(fname + '_twin', '_ != 1')
        self.n += 1

    def write(self):
        os.makedirs(BUILD, exist_ok=True)
        init = os.path.join(BUILD, '__init__.py')
        if not os.path.exists(init):
            open(init, 'w').close()
        path = os.path.join(BUILD, self.name + '.py')
        with open(path, 'w') as f:
            f.write('\n'.join(self.lines) + '\n')
        return 'build.' + self.name


def _func_ranges(path):
    tree = ast.parse(open(path).read())
    out = []
    for node in tree.body:
        if isinstance(node, ast.FunctionDef):
            out.append((node.lineno, node.end_lineno, node.name))
    return out


_MSG = re.compile(r'^(?P<file>[^:]+\.py):(?P<line>\d+): (?P<kind>error|info|warning): (?P<msg>.*)$')
_CALL = re.compile(r'^(?P<what>.*?) when calling (?P<fn>\w+)\((?P<args>.*?)\)(?: \(which returns (?P<ret>.*)\))?$', re.S)


def _run_crosshair(module, funcs, timeout):
    targets = ['%s.%s' % (module, f) for f in funcs]
    cmd = [PY, CHRUN, 'check', '--analysis_kind', 'PEP316', '--report_all',
           '--per_condition_timeout', str(timeout),
           '--per_path_timeout', str(max(30, timeout // 2))] + targets
    t0 = time.time()
    try:
        p = subprocess.run(cmd, capture_output=True, text=True, cwd=VERIF,
                           timeout=timeout * len(funcs) * 1.5 + 120)
        out, err, rc = p.stdout, p.stderr, p.returncode
    except subprocess.TimeoutExpired as e:
        out = (e.stdout or b'').decode() if isinstance(e.stdout, bytes) else (e.stdout or '')
        err = 'outer timeout'
        rc = -9
    return out, err, rc, time.time() - t0


def _parse(module, out):
    path = os.path.join(VERIF, module.replace('.', '/') + '.py')
    ranges = _func_ranges(path)
    res = {}
    for line in out.splitlines():
        m = _MSG.match(line.strip())
        if not m:
            continue
        ln = int(m.group('line'))
        fn = None
        for a, b, name in ranges:
            if a <= ln <= b:
                fn = name
        msg = m.group('msg')
        res.setdefault(fn, []).append((m.group('kind'), msg))
    return res


def replay(module, func, args, timeout=900):
    try:
        p = subprocess.run([PY, CHRUN, 'replay', module, func, args],
                           capture_output=True, text=True, cwd=VERIF,
                           timeout=timeout)
    except subprocess.TimeoutExpired:
        return {'timeout': True}
    notes = [ln for ln in p.stdout.splitlines() if ln.startswith('KERNEL-')]
    for line in p.stdout.splitlines():
        if line.startswith('REPLAY-RESULT '):
            r = json.loads(line[len('REPLAY-RESULT '):])
            if notes:
                r['notes'] = notes
            return r
    return {'error': 'no replay result', 'stderr': p.stderr[-2000:],
            'stdout': p.stdout[-2000:]}


def _classify(ob, msgs):
    """msgs: list of (kind, msg) for the main function."""
    if not msgs:
        return INCONCLUSIVE, 'no verdict line'
    for kind, msg in msgs:
        if kind == 'error':
            m = _CALL.match(msg)
            if not m:
                return HARNESS_ERROR, 'unparsed error: ' + msg[:300]
            what, args = m.group('what'), m.group('args')
            ob.cex = args
            r = replay(ob.module, ob.func, args)
            if r.get('timeout'):
                return INCONCLUSIVE, 'native replay of (%s) timed out' % args
            if 'error' in r:
                return HARNESS_ERROR, 'replay failed: %r' % r
            raised = r.get('raised', '')
            if raised.startswith('BudgetExceeded') or \
                    raised.startswith('RefBudget'):
                return BOUND, 'tick/input budget exceeded for (%s)' % args
            if not what.strip().startswith('false'):
                # obligations never raise by design (host exceptions of the
                # unit under test are caught and turned into a 0 result),
                # so an exception is a defect of the harness itself
                return HARNESS_ERROR, ('harness raised %s for (%s); '
                                       'native: %s' % (what[:200], args,
                                                       raised[:200]))
            if r.get('ok'):
                # a model that does not replay against the real code is an
                # artefact of the symbolic library models, not a violation:
                # the obligation is left undecided (never discharged)
                return INCONCLUSIVE, ('SPURIOUS: counterexample (%s) [%s] '
                                      'did not reproduce natively: %r'
                                      % (args, what[:120], r))
            return VIOLATION, '%s | args: %s | native: %s' % (
                what[:200], args, raised or r.get('returned'))
    texts = ' / '.join(m for _, m in msgs)
    if 'Confirmed over all paths' in texts:
        return DISCHARGED, ''
    if 'Unable to meet precondition' in texts:
        return INCONCLUSIVE, 'unable to meet precondition'
    if 'Not confirmed' in texts:
        return INCONCLUSIVE, 'not confirmed within timeout'
    return INCONCLUSIVE, texts[:200]


def _classify_twin(msgs):
    if not msgs:
        return INCONCLUSIVE
    for kind, msg in msgs:
        if kind == 'error' and msg.startswith('false when calling'):
            return REFUTED
    return INCONCLUSIVE


def run_native(ob):
    """An enumeration obligation: the function runs natively over a finite
    table (no symbolic inputs, so no solver is involved)."""
    t0 = time.time()
    r = replay(ob.module, ob.func, ob.native_args or '',
               timeout=max(900, 3 * ob.timeout))
    if r.get('timeout'):
        ob.verdict, ob.detail = INCONCLUSIVE, 'native run timed out'
    elif 'error' in r:
        ob.verdict, ob.detail = HARNESS_ERROR, 'native run failed: %r' % r
    elif r.get('raised') and ob.kind == 'smt' and (
            r['raised'].startswith('RuntimeError: solver answered') or
            r['raised'].startswith('Unsupported')):
        # `unknown` from the solver, or code outside the translated subset
        ob.verdict, ob.detail = INCONCLUSIVE, r['raised']
    elif r.get('raised'):
        ob.verdict, ob.detail = HARNESS_ERROR, 'raised ' + r['raised']
    elif r.get('ok'):
        ob.verdict, ob.detail = DISCHARGED, ' | '.join(r.get('notes', []))
        ob.twin_verdict = REFUTED
    else:
        ob.cex = ob.native_args or ''
        ob.verdict = VIOLATION
        ob.detail = ('enumeration returned %s' % r.get('returned')
                     if ob.kind == 'native' else
                     'z3 counterexample replayed on the real code: ' +
                     ' | '.join(n for n in r.get('notes', [])
                                if n.startswith('KERNEL-CEX')))
    ob.time_s = time.time() - t0
    return ob


def run_obligation(ob):
    t0 = time.time()
    if ob.kind in ('native', 'smt'):
        return run_native(ob)
    if ob.kind != 'crosshair':
        raise ValueError(ob.kind)
    funcs = [ob.func] + ([ob.twin] if ob.twin else [])
    out, err, rc, dt = _run_crosshair(ob.module, funcs, ob.timeout)
    if 'HARNESS-ERROR' in out:
        ob.verdict, ob.detail = HARNESS_ERROR, out.strip()[:500]
    elif rc not in (0, 1):
        ob.verdict = HARNESS_ERROR if rc != -9 else INCONCLUSIVE
        ob.detail = ('crosshair rc=%s: %s' % (rc, (err or out)[-600:]))
    else:
        res = _parse(ob.module, out)
        ob.verdict, ob.detail = _classify(ob, res.get(ob.func, []))
        if ob.twin:
            ob.twin_verdict = _classify_twin(res.get(ob.twin, []))
        if ob.verdict == INCONCLUSIVE and 'Traceback' in err:
            ob.detail += ' | stderr: ' + err[-400:]
    ob.time_s = time.time() - t0
    return ob


def run_batch(obs):
    """Several obligations of the same module in one CrossHair process
    (saves the ~6 s start-up per obligation)."""
    if len(obs) == 1 or any(o.kind != 'crosshair' for o in obs):
        return [run_obligation(o) for o in obs]
    t0 = time.time()
    funcs = []
    for ob in obs:
        funcs.append(ob.func)
        if ob.twin:
            funcs.append(ob.twin)
    tmax = max(ob.timeout for ob in obs)
    out, err, rc, dt = _run_crosshair(obs[0].module, funcs, tmax)
    if 'HARNESS-ERROR' in out or rc not in (0, 1):
        # fall back to one process per obligation
        return [run_obligation(ob) for ob in obs]
    res = _parse(obs[0].module, out)
    for ob in obs:
        ob.verdict, ob.detail = _classify(ob, res.get(ob.func, []))
        if ob.twin:
            ob.twin_verdict = _classify_twin(res.get(ob.twin, []))
        ob.time_s = (time.time() - t0) / len(obs)
    return obs


def load_known(prop):
    if not os.path.exists(KNOWN):
        return []
    data = json.load(open(KNOWN))
    return [f for f in data.get('findings', []) if f['property'] == prop]


def run_property(prop, tier, level, obligations, explanation, assumptions,
                 functions, bounds, extra_cov=None, known_witnesses=None,
                 wall_budget=None):
    """Schedule obligations; write evidence; print verdict lines.
    known_witnesses: list of (finding dict, callable -> bool still_fails)."""
    t0 = time.time()
    seed = int(os.environ.get('VERIF_SEED', '0') or 0)
    os.makedirs(EVID, exist_ok=True)
    os.makedirs(REPLAY_DIR, exist_ok=True)
    not_started = []
    done = []
    # group batchable obligations (same module, same batch key)
    groups = []
    pending = {}
    for ob in obligations:
        b = getattr(ob, 'batch', None)
        if not b:
            groups.append([ob])
            continue
        key = (ob.module, b[0])
        g = pending.setdefault(key, [])
        g.append(ob)
        if len(g) >= b[1]:
            groups.append(g)
            pending[key] = []
    groups.extend(g for g in pending.values() if g)
    # long-running groups first
    groups.sort(key=lambda g: -sum(o.timeout for o in g))
    with cf.ThreadPoolExecutor(max_workers=NCPU) as ex:
        futs = {}
        for g in groups:
            futs[ex.submit(run_batch, g)] = g
        for fut in cf.as_completed(futs):
            g = futs[fut]
            try:
                fut.result()
            except Exception as e:  # noqa
                for ob in g:
                    ob.verdict, ob.detail = HARNESS_ERROR, 'runner: %r' % e
            for ob in g:
                done.append(ob)
                sys.stderr.write('[%s] %-40s %-16s %5.1fs %s\n' % (
                    prop, ob.oid, ob.verdict, ob.time_s, ob.detail[:160]))
            sys.stderr.flush()

    violations = [o for o in done if o.verdict == VIOLATION]
    herrs = [o for o in done if o.verdict == HARNESS_ERROR]
    disc = [o for o in done if o.verdict == DISCHARGED]
    inc = [o for o in done if o.verdict in (INCONCLUSIVE, BOUND)]
    vacuous = [o for o in disc if o.twin and o.twin_verdict != REFUTED]
    # a discharged obligation whose reachability twin was not refuted is
    # not counted as discharged
    for o in vacuous:
        o.verdict = INCONCLUSIVE
        o.detail = 'reachability twin not refuted (possible vacuity)'
    disc = [o for o in disc if o not in vacuous]
    inc += vacuous

    # known findings: witnesses are replayed natively
    known_lines = []
    for finding, still_fails in (known_witnesses or []):
        try:
            bad = still_fails()
        except Exception as e:  # noqa
            bad = None
            herrs.append(_PseudoObl('known-witness:' + finding['key'],
                                    'witness replay crashed: %r' % e))
        if bad:
            known_lines.append('KNOWN-FINDING: property=%s %s -- %s' % (
                prop, finding['key'], finding['what']))

    replay_paths = []
    for i, o in enumerate(violations):
        rp = os.path.join(REPLAY_DIR, '%s-%d.json' % (prop, i))
        json.dump({'property': prop, 'obligation': o.oid,
                   'module': o.module, 'func': o.func, 'args': o.cex,
                   'detail': o.detail, 'desc': o.desc}, open(rp, 'w'),
                  indent=1)
        replay_paths.append(rp)

    wall = time.time() - t0
    samples = []
    for o in (disc[:3] + inc[:2] + violations[:2]):
        samples.append({'obligation': o.oid, 'family': o.family,
                        'desc': o.desc, 'verdict': o.verdict,
                        'time_s': round(o.time_s, 1),
                        'sample': o.sample})
    fams = {}
    for o in done:
        f = fams.setdefault(o.family or 'default', {
            'obligations': 0, 'discharged': 0, 'inconclusive': 0,
            'violations': 0})
        f['obligations'] += 1
        if o.verdict == DISCHARGED:
            f['discharged'] += 1
        elif o.verdict == VIOLATION:
            f['violations'] += 1
        else:
            f['inconclusive'] += 1
    cov = {
        'explanation': explanation,
        'obligations': len(done),
        'discharged': len(disc),
        'inconclusive': len(inc),
        'inconclusive_detail': [
            {'obligation': o.oid, 'why': o.detail[:200],
             'verdict': o.verdict} for o in inc][:60],
        'harness_errors': [
            {'obligation': o.oid, 'why': o.detail[:300]} for o in herrs],
        'evaluations': len(done),
        'distinct_nontrivial': len(disc),
        'rule': ('one evaluation = one solver-decided obligation (all paths '
                 'of the harness function explored by CrossHair/z3 within '
                 'the stated bounds); distinct_nontrivial counts obligations '
                 'whose verdict is "Confirmed over all paths" AND whose '
                 'reachability twin was refuted'),
        'samples': samples or [{'note': 'no obligations ran'}],
        'families': fams,
        'functions_encoded': functions,
        'bounds': bounds,
        'solver_time_s': round(sum(o.time_s for o in done), 1),
        'queries_discharged': len(disc),
        'known_findings_reproduced': known_lines,
        'checker_cmd': '%s %s check --analysis_kind PEP316 --report_all '
                       '--per_condition_timeout T <module.func>' % (PY, CHRUN),
        'trusted_base': ['CrossHair 0.0.110 symbolic execution + z3 5.1',
                         'vlib/chfix.py library models',
                         'vlib/striplog.py logging cut'],
        'exhaustive': False,
        'programs': len(done),
        'disagreements_checked': len(violations) + len(herrs),
    }
    if extra_cov:
        cov.update(extra_cov)
    evidence = {
        'property_id': prop, 'tier': tier, 'seed': seed, 'level': level,
        'coverage': cov, 'assumptions': assumptions,
        'wall_s': round(wall, 1), 'violations': len(violations),
    }
    json.dump(evidence, open(os.path.join(EVID, prop + '.json'), 'w'),
              indent=1, default=str)

    for line in known_lines:
        print(line)
    print('[%s] tier=%s obligations=%d discharged=%d inconclusive=%d '
          'violations=%d harness_errors=%d wall=%.0fs' % (
              prop, tier, len(done), len(disc), len(inc), len(violations),
              len(herrs), wall))
    if violations:
        for o, rp in zip(violations, replay_paths):
            print('VIOLATION property=%s replay=%s' % (prop, rp))
            print('  obligation %s: %s' % (o.oid, o.detail[:400]))
        return 1
    if herrs:
        for o in herrs:
            print('HARNESS-ERROR %s: %s' % (o.oid, o.detail[:400]))
        return 3
    if not disc:
        print('HARNESS-ERROR: zero discharged obligations')
        return 3
    return 0


class _PseudoObl:
    def __init__(self, oid, detail):
        self.oid = oid
        self.detail = detail
        self.verdict = HARNESS_ERROR
        self.family = 'known'
        self.time_s = 0.0
        self.desc = ''
        self.sample = None
        self.twin = None


def main(argv=None):
    argv = argv or sys.argv[1:]
    if len(argv) >= 2 and argv[1] == '--replay':
        data = json.load(open(argv[2]))
        r = replay(data['module'], data['func'], data['args'])
        print(json.dumps(r, indent=1))
        return 0 if r.get('ok') else 1
    prop = argv[0]
    tier = 'quick'
    if '--tier' in argv:
        tier = argv[argv.index('--tier') + 1]
    tier = os.environ.get('VERIF_TIER', tier) if '--tier' not in argv else tier
    mod = importlib.import_module('props.' + prop.lower())
    return mod.run(tier)


if __name__ == '__main__':
    sys.exit(main())
