"""Number-to-text abstraction for harnesses whose subject is not formatting.

PRINT of a *symbolic* INTEGER/LONG would fork once per possible digit count
(x2 for the sign).  Where formatting is not the subject (C01-C04, C07, C08,
C10...) the text of a symbolic integer is replaced by an opaque token that is
an injective function of its value; concrete numbers keep their real text.
The rendering itself is the subject of C16/C17, which do not use this cut.
"""
from crosshair.tracers import NoTracing
from crosshair.util import CrossHairValue


class NumTok:
    __slots__ = ('v',)

    def __init__(self, v):
        self.v = v

    def __repr__(self):
        return '<num %r>' % (self.v,)


class Rope:
    """A string-like sequence of str pieces and NumTok pieces."""
    __slots__ = ('parts',)

    def __init__(self, parts):
        self.parts = list(parts)

    @staticmethod
    def _parts(o):
        if isinstance(o, Rope):
            return o.parts
        if isinstance(o, NumTok):
            return [o]
        if isinstance(o, str):
            return [o]
        return NotImplemented

    def __add__(self, o):
        p = Rope._parts(o)
        if p is NotImplemented:
            return NotImplemented
        return Rope(self.parts + p)

    def __radd__(self, o):
        p = Rope._parts(o)
        if p is NotImplemented:
            return NotImplemented
        return Rope(p + self.parts)

    def __len__(self):
        n = 0
        for p in self.parts:
            if isinstance(p, NumTok):
                n += len(_real_int_text(p.v))
            else:
                n += len(p)
        return n

    def normal(self):
        out = []
        for p in self.parts:
            if isinstance(p, NumTok):
                out.append(p)
            elif out and not isinstance(out[-1], NumTok):
                out[-1] = out[-1] + p
            else:
                out.append(p)
        return out

    def __repr__(self):
        return 'Rope(%r)' % (self.parts,)


def _real_int_text(v):
    s = str(v)
    return s if v < 0 else ' ' + s


def num_token(t, v):
    """Token for a symbolic integral value, None for concrete values."""
    if t not in '%&':
        return None
    with NoTracing():
        sym = isinstance(v, CrossHairValue)
    return NumTok(v) if sym else None


def _render(parts):
    out = ''
    for p in parts:
        out += _real_int_text(p.v) if isinstance(p, NumTok) else p
    return out


def text_equal(a, b):
    """Equality of two printed texts (str or Rope)."""
    ra = a.normal() if isinstance(a, Rope) else ([a] if a != '' else [])
    rb = b.normal() if isinstance(b, Rope) else ([b] if b != '' else [])
    ra = [p for p in ra if isinstance(p, NumTok) or len(p) > 0]
    rb = [p for p in rb if isinstance(p, NumTok) or len(p) > 0]
    same_shape = len(ra) == len(rb)
    if same_shape:
        for x, y in zip(ra, rb):
            if isinstance(x, NumTok) != isinstance(y, NumTok):
                same_shape = False
    if not same_shape:
        # one side rendered a number that the other side kept as a token
        # (e.g. a library call realised it): compare the real texts
        return _render(ra) == _render(rb)
    for x, y in zip(ra, rb):
        if isinstance(x, NumTok):
            if not (x.v == y.v):
                return False
        elif not (x == y):
            return False
    return True


def trace_equal(t1, t2):
    if len(t1) != len(t2):
        return False
    for a, b in zip(t1, t2):
        if len(a) != len(b):
            return False
        if a[0] != b[0] or a[1] != b[1]:
            return False
        for x, y in zip(a[2:], b[2:]):
            if isinstance(x, Rope) or isinstance(y, Rope):
                if not text_equal(x, y):
                    return False
            elif not (x == y):
                return False
    return True


_state = {'abstract': False}


def install_number_abstraction():
    """Replace qvm.machine.format_number (used by PRINT only; STR$ uses
    qvm.cpu.format_number, which is left alone)."""
    import qvm.machine as machine
    import qvm.utils as utils
    real = utils.format_number
    if getattr(machine.format_number, '_verif_wrapper', False):
        return

    def format_number(n, n_type):
        if _state['abstract'] and n_type.is_integral:
            with NoTracing():
                sym = isinstance(n, CrossHairValue)
            if sym:
                return Rope([NumTok(n)])
        return real(n, n_type)
    format_number._verif_wrapper = True
    machine.format_number = format_number
    _patch_symbolic_str_add()


def _patch_symbolic_str_add():
    """CrossHair's LazyIntSymbolicStr.__add__ raises TypeError for a
    non-str right operand instead of returning NotImplemented, so
    `symbolic_str + Rope` never reached Rope.__radd__ (natively
    `'' + Rope` does).  Found as a non-replaying counterexample
    (INPUT n$ answered '' followed by PRINT n$; k%)."""
    try:
        from crosshair.libimpl.builtinslib import LazyIntSymbolicStr
    except ImportError:
        return
    orig = LazyIntSymbolicStr.__add__
    if getattr(orig, '_verif_wrapper', False):
        return

    def __add__(self, other):
        with NoTracing():
            rope = isinstance(other, (Rope, NumTok))
        if rope:
            return NotImplemented
        return orig(self, other)
    __add__._verif_wrapper = True
    LazyIntSymbolicStr.__add__ = __add__


def set_abstract(flag):
    _state['abstract'] = bool(flag)
