"""Harness entry points called by generated obligation functions.

Return codes of check functions: 1 = the assertion was reached and held,
0 = violated, 2 = path legitimately skipped (outside the obligation's claim).
Obligations assert `_ != 0`; reachability twins assert `_ != 1` and must be
refuted.
"""
from . import symqvm
from .symqvm import (CellType, HaltReason, TrapCode, BudgetExceeded,
                     run_program, compile_program, CONFIGS)
from . import rope
from .rope import trace_equal
from . import qbref
from .qbspec import to_text

rope.install_number_abstraction()

TRAP_CLASS = {
    TrapCode.INVALID_CELL_VALUE: qbref.OVERFLOW,
    TrapCode.DIVISION_BY_ZERO: qbref.DIV0,
    TrapCode.INDEX_OUT_OF_RANGE: qbref.SUBSCRIPT,
    TrapCode.INVALID_OPERAND_VALUE: qbref.ILLEGAL,
    TrapCode.DEVICE_ERROR: qbref.DEVICE,
}

CTYPE = {'%': CellType.INTEGER, '&': CellType.LONG, '!': CellType.SINGLE,
         '#': CellType.DOUBLE, '$': CellType.STRING}

MACHINE_FAULTS = (
    TrapCode.TYPE_MISMATCH, TrapCode.STACK_EMPTY, TrapCode.INVALID_OP_CODE,
    TrapCode.INVALID_LOCAL_VAR_IDX, TrapCode.NULL_REFERENCE,
    TrapCode.INVALID_DIMENSIONS, TrapCode.DEVICE_NOT_AVAILABLE,
    TrapCode.UNINITIALIZED_MEM,
)


class Cell:
    """One catalogue entry: a spec program + its symbolic inputs."""

    def __init__(self, cid, prog, inputs, pre=None, budget=400, family='',
                 ref=True, inkeys=0, peeks=0, note='', tags=(), strlen=None,
                 slow=False, impl='sym', lines=0, line_alpha='1,-. x',
                 line_len=4, tail_lines=()):
        self.cid = cid
        self.prog = prog
        self.inputs = inputs      # [(type_char, sentinel)]
        self.pre = pre            # extra precondition over x0..xn (text)
        self.budget = budget
        self.family = family
        self.ref = ref            # has reference semantics
        self.inkeys = inkeys      # number of symbolic INKEY$ results
        self.peeks = peeks
        self.note = note
        self.tags = tuple(tags)
        self.strlen = strlen
        self.slow = slow
        self.impl = impl
        self.lines = lines          # number of symbolic INPUT lines
        self.line_alpha = line_alpha
        self.line_len = line_len
        self.tail_lines = list(tail_lines)
        self.text = to_text(prog)

    def params(self):
        ps = []
        n = 0
        for t, _ in self.inputs:
            ps.append(('x%d' % n, 'str' if t == '$' else 'int', t))
            n += 1
        for _ in range(self.inkeys):
            ps.append(('x%d' % n, 'str', '$'))
            n += 1
        for _ in range(self.peeks):
            ps.append(('x%d' % n, 'int', '%'))
            n += 1
        for _ in range(self.lines):
            ps.append(('x%d' % n, 'str', 'L'))
            n += 1
        return ps

    def precondition(self, strlen=4):
        if self.strlen is not None:
            strlen = min(strlen, self.strlen)
        cs = []
        for name, _, t in self.params():
            if t == '%':
                cs.append('-32768 <= %s <= 32767' % name)
            elif t == '&':
                cs.append('-2147483648 <= %s <= 2147483647' % name)
            elif t == 'L':
                cs.append('len(%s) <= %d' % (name, self.line_len))
                cs.append('all(c in %r for c in %s)' % (self.line_alpha,
                                                        name))
            else:
                cs.append('len(%s) <= %d' % (name, strlen))
                cs.append('all(32 <= ord(c) <= 126 for c in %s)' % name)
        if self.pre:
            cs.append('(%s)' % self.pre)
        return ' and '.join(cs) if cs else 'True'

    def split(self, xs):
        n = len(self.inputs)
        seeds = {}
        for (t, sent), x in zip(self.inputs, xs[:n]):
            seeds[(t, sent)] = x
        inkeys = list(xs[n:n + self.inkeys])
        peeks = list(xs[n + self.inkeys:n + self.inkeys + self.peeks])
        self._lines = list(xs[n + self.inkeys + self.peeks:]) + \
            self.tail_lines
        return seeds, inkeys, peeks


CATALOG = {}


def register(cell):
    assert cell.cid not in CATALOG, cell.cid
    CATALOG[cell.cid] = cell
    return cell


def run_impl(cell, cfg, xs, per_tick=None, abstract=True):
    opt, dbg = CONFIGS[cfg] if isinstance(cfg, int) else cfg
    seeds, inkeys, peeks = cell.split(xs)
    impl_seeds = {(CTYPE[t], s): v for (t, s), v in seeds.items()}
    rope.set_abstract(abstract)
    trace, out, machine = run_program(
        cell.text, opt, dbg, cell.budget, impl_seeds or None,
        per_tick=per_tick, catch_host_exc=True, impl_kind=cell.impl,
        inkeys=inkeys, peeks=peeks, inputs=list(cell._lines))
    return trace, out, machine


def run_ref(cell, xs, abstract=True):
    seeds, inkeys, peeks = cell.split(xs)
    it = qbref.Interp(cell.prog, seeds, inkeys=inkeys, peeks=peeks,
                      budget=cell.budget * 4, abstract_numbers=abstract)
    it.lines = list(cell._lines)
    res = it.run()
    return it.trace, res, it


def outcome_matches(out, res):
    if out.exc is not None:
        return False
    if res[0] == 'end':
        return out.halt == HaltReason.INSTRUCTION
    if out.halt != HaltReason.TRAP:
        return False
    return TRAP_CLASS.get(out.trap) == res[1]


def check_ref(cid, cfg, *xs):
    """C01: implementation at configuration cfg vs reference semantics."""
    cell = CATALOG[cid]
    trace, out, _ = run_impl(cell, cfg, xs)
    rtrace, res, _ = run_ref(cell, xs)
    if not outcome_matches(out, res):
        return 0
    if not trace_equal(trace, rtrace):
        return 0
    return 1


def check_pair(cid, cfg_a, cfg_b, *xs):
    """C02.3 / C08: two configurations of the same program agree."""
    cell = CATALOG[cid]
    ta, oa, _ = run_impl(cell, cfg_a, xs)
    tb, ob, _ = run_impl(cell, cfg_b, xs)
    if oa.key() != ob.key():
        return 0
    if not trace_equal(ta, tb):
        return 0
    return 1


def describe(cid, cfg, *xs):
    """Human-readable replay of one cell (used by --replay)."""
    cell = CATALOG[cid]
    trace, out, _ = run_impl(cell, cfg, xs)
    lines = ['program:', cell.text, 'inputs: %r' % (xs,),
             'impl trace: %r' % (trace,), 'impl outcome: %r' % (out,)]
    if cell.ref:
        rtrace, res, it = run_ref(cell, xs)
        lines += ['ref trace: %r' % (rtrace,), 'ref outcome: %r' % (res,)]
    return '\n'.join(lines)


# ---------------------------------------------------------------------
# C08: debug info does not change behaviour
# ---------------------------------------------------------------------

def _sections(bcode):
    """Split a module image into {section_id: bytes}."""
    import struct
    out = {}
    i = 0
    while i < len(bcode):
        sid = bcode[i]
        n, = struct.unpack('>I', bcode[i + 1:i + 5])
        out[sid] = bcode[i + 5:i + 5 + n]
        i += 5 + n
    return out


def check_dbg_pair(cid, opt, *xs):
    """-g vs no -g at optimisation level opt: sections 1-3 identical (and
    the code section too), trace and outcome equal for all inputs."""
    cell = CATALOG[cid]
    _, b0, _ = compile_program(cell.text, opt, False)
    _, b1, _ = compile_program(cell.text, opt, True)
    s0, s1 = _sections(b0), _sections(b1)
    for sid in (1, 2, 3):
        if s0.get(sid) != s1.get(sid):
            return 0
    ta, oa, _ = run_impl(cell, (opt, False), xs)
    tb, ob, _ = run_impl(cell, (opt, True), xs)
    if oa.key() != ob.key():
        return 0
    if not trace_equal(ta, tb):
        return 0
    return 1


# ---------------------------------------------------------------------
# C03: type- and stack-safety monitor
# ---------------------------------------------------------------------

_TYPE_OF_CHAR = {'%': CellType.INTEGER, '&': CellType.LONG,
                 '!': CellType.SINGLE, '#': CellType.DOUBLE,
                 '$': CellType.STRING, '@': CellType.REFERENCE}
_static_cache = {}
_NOT_STATEMENTS = ('SimpleCaseClause', 'RangeCaseClause',
                   'CompareCaseClause', 'ArrayDimRange', 'VarDeclClause',
                   'AnyVarDeclClause', 'ElseClause', 'PrintSep')


def _module_static(module):
    """Instruction starts and statement starts of a module (concrete)."""
    key = id(module)
    if key in _static_cache:
        return _static_cache[key]
    from crosshair.tracers import NoTracing
    from qvm.instrs import op_code_to_instr
    with NoTracing():
        starts = set()
        frame_targets = set()
        i = 0
        code = module.code
        while i < len(code):
            starts.add(i)
            instr = op_code_to_instr.get(code[i])
            if instr is None:
                break
            size = 1 + sum(o.size for o in instr.operands)
            if instr.op == 'frame':
                frame_targets.add(i)
            i += size
        stmt_starts = set()
        if module.debug_info is not None:
            for rec in module.debug_info.stmts:
                # clause / declaration nodes subclass Stmt in qbee but are
                # parts of a statement, not statements
                if type(rec.node).__name__ in _NOT_STATEMENTS:
                    continue
                if rec.end_offset > rec.start_offset:
                    stmt_starts.add(rec.start_offset)
        res = (starts, len(code), stmt_starts, frame_targets)
    _static_cache[key] = res
    return res


class SafetyMonitor:
    """Run-time monitor for C03, called after every tick."""

    def __init__(self, module, strict_after_trap=False):
        self.strict_after_trap = strict_after_trap
        self.starts, self.code_len, self.stmt_starts, self.frame_at = \
            _module_static(module)
        self.cell_types = {}     # (id(segment), idx) -> CellType
        self.segs = {}           # keep segments alive: id -> segment
        self.frame_depth = {}    # id(frame) -> depth at entry
        self.gosubs = {}         # id(frame) -> active gosubs
        self.violation = None

    def fail(self, why):
        if self.violation is None:
            self.violation = why

    def __call__(self, cpu, ticks):
        from crosshair.tracers import NoTracing
        with NoTracing():
            self._check(cpu)

    def _check(self, cpu):
        if self.violation is not None:
            return
        if cpu.halted:
            if cpu.last_trap in MACHINE_FAULTS and \
                    cpu.halt_reason == HaltReason.TRAP:
                self.fail('machine fault %s' % cpu.last_trap.name)
            return
        pc = cpu.pc
        if pc not in self.starts and pc != self.code_len:
            self.fail('pc %d is not an instruction start' % pc)
            return
        # the instruction just executed
        prev = cpu.prev_pc
        instr, operands, size = cpu.get_instruction_at(prev)
        op = instr.op if instr is not None else ''
        fr = cpu.cur_frame
        if op == 'frame':
            self.frame_depth[id(fr)] = len(cpu.stack)
            self.gosubs[id(fr)] = 0
            self.segs[id(fr)] = fr
        elif op == 'call':
            if pc not in self.frame_at:
                self.gosubs[id(fr)] = self.gosubs.get(id(fr), 0) + 1
        elif op == 'ijmp' or (op == 'pop'):
            # RETURN / RETURN label
            self.gosubs[id(fr)] = self.gosubs.get(id(fr), 0) - 1
        # (ii) typed reads push the declared type
        base = op.rstrip('%&!#$@')
        if base in ('readl', 'readg', 'readidxl', 'readidxg', 'deref') \
                and op[-1] in _TYPE_OF_CHAR and cpu.stack \
                and pc == prev + size:
            want = _TYPE_OF_CHAR[op[-1]]
            got = cpu.stack[-1].type
            if got != want:
                self.fail('%s pushed a %s' % (op, got.name))
                return
        # (i) type stability of storage
        segs = [cpu.globals_segment]
        f = fr
        while f is not None:
            segs.append(f)
            f = f.prev_frame
        extra = []
        for seg in segs:
            for c in seg.cells:
                if c is not None and c.type == CellType.REFERENCE:
                    s2 = c.value.segment
                    if all(s2 is not s for s in segs) and \
                            all(s2 is not s for s in extra):
                        extra.append(s2)
        for seg in segs + extra:
            self.segs[id(seg)] = seg
            for i, c in enumerate(seg.cells):
                if c is None or c.type == CellType.REFERENCE:
                    continue
                k = (id(seg), i)
                old = self.cell_types.get(k)
                if old is None:
                    self.cell_types[k] = c.type
                elif old != c.type:
                    self.fail('cell %d of %r changed type %s -> %s' % (
                        i, seg, old.name, c.type.name))
                    return
        # stack depth at statement boundaries (-g builds only)
        # (skipped at a routine's first instruction: its frame does not
        # exist yet; and once a trap has been dispatched to an ON ERROR
        # handler -- leftovers of the interrupted statement are C10's
        # subject, see known_findings.json)
        if pc in self.stmt_starts and fr is not None and \
                pc not in self.frame_at and \
                (cpu.last_trap is None or (self.strict_after_trap and
                                           not cpu.error_handler_active)) \
                and \
                id(fr) in self.frame_depth:
            want = self.frame_depth[id(fr)] + self.gosubs.get(id(fr), 0)
            if len(cpu.stack) != want:
                self.fail('stack depth %d at statement start %d, '
                          'expected %d' % (len(cpu.stack), pc, want))


def check_safety(cid, cfg, *xs):
    """C03: no machine-level fault, type-stable storage, typed reads, valid
    control transfers, clean stack at statement boundaries."""
    cell = CATALOG[cid]
    opt, dbg = CONFIGS[cfg]
    _, _, module = compile_program(cell.text, opt, dbg)
    mon = SafetyMonitor(module)
    trace, out, machine = run_impl(cell, cfg, xs, per_tick=mon)
    if out.exc is not None:
        return 0
    if out.halt == HaltReason.TRAP and out.trap in MACHINE_FAULTS:
        return 0
    if mon.violation is not None:
        return 0
    return 1


def safety_reason(cid, cfg, *xs):
    cell = CATALOG[cid]
    opt, dbg = CONFIGS[cfg]
    _, _, module = compile_program(cell.text, opt, dbg)
    mon = SafetyMonitor(module)
    trace, out, machine = run_impl(cell, cfg, xs, per_tick=mon)
    return (mon.violation, out)


# ---------------------------------------------------------------------
# C07: VM totality
# ---------------------------------------------------------------------

def check_total(cid, cfg, *xs):
    """Every run ends in a defined state: no host exception, halted by
    instruction / end of code / trap; when the cell has reference semantics
    the trap class must match the cause."""
    cell = CATALOG[cid]
    trace, out, machine = run_impl(cell, cfg, xs)
    if out.exc is not None:
        return 0
    if out.halt not in (HaltReason.INSTRUCTION, HaltReason.END_OF_CODE,
                        HaltReason.TRAP):
        return 0
    if cell.ref:
        rtrace, res, _ = run_ref(cell, xs)
        if not outcome_matches(out, res):
            return 0
    return 1


# ---------------------------------------------------------------------
# C10: ON ERROR / RESUME
# ---------------------------------------------------------------------

def check_onerror(cid, cfg, *xs):
    """Reference trace/outcome AND, after every resumption, a clean operand
    stack at each statement start (none of the failed statement's partial
    results remain)."""
    cell = CATALOG[cid]
    opt, dbg = CONFIGS[cfg]
    _, _, module = compile_program(cell.text, opt, dbg)
    mon = SafetyMonitor(module, strict_after_trap=True)
    trace, out, machine = run_impl(cell, cfg, xs, per_tick=mon)
    rtrace, res, _ = run_ref(cell, xs)
    if not outcome_matches(out, res):
        return 0
    if not trace_equal(trace, rtrace):
        return 0
    if mon.violation is not None and \
            mon.violation.startswith('stack depth'):
        return 0
    return 1


# ---------------------------------------------------------------------
# C11: the debug map
# ---------------------------------------------------------------------
_struct_cache = {}


def dbgmap_structure(module, text):
    """Concrete structural checks of a module's debug map.  Returns None or
    a description of the first violation."""
    di = module.debug_info
    if di is None:
        return 'no debug info'
    starts, code_len, _, frame_at = _module_static(module)
    bounds = set(starts) | {code_len}
    recs = list(di.stmts)
    for r in recs:
        if r.start_offset not in bounds or r.end_offset not in bounds:
            return 'record %s [%d,%d) not on instruction boundaries' % (
                type(r.node).__name__, r.start_offset, r.end_offset)
        if r.end_offset < r.start_offset:
            return 'negative range'
    ne = [r for r in recs if r.end_offset > r.start_offset]
    for i, a in enumerate(ne):
        for b in ne[i + 1:]:
            lo = max(a.start_offset, b.start_offset)
            hi = min(a.end_offset, b.end_offset)
            if lo < hi:
                inside = (a.start_offset <= b.start_offset and
                          b.end_offset <= a.end_offset) or \
                         (b.start_offset <= a.start_offset and
                          a.end_offset <= b.end_offset)
                if not inside:
                    return 'ranges of %s and %s overlap without nesting' % (
                        type(a.node).__name__, type(b.node).__name__)
    # every instruction of a routine body is attributed
    from qvm.instrs import op_code_to_instr
    code = module.code
    # main: [first frame + size, its final ret); routines: whole range
    addrs = sorted(starts)
    ops = {}
    for a in addrs:
        ops[a] = op_code_to_instr[code[a]].op
    frames = sorted(frame_at)
    if not frames:
        return 'no frame instruction'
    routine_ranges = []
    for k, f in enumerate(frames):
        end = frames[k + 1] if k + 1 < len(frames) else code_len
        routine_ranges.append((f, end))
    lines = text.split('\n')
    for k, (f, end) in enumerate(routine_ranges):
        body = [a for a in addrs if f <= a < end]
        if k == 0:
            # the main routine is not a statement: its frame instruction
            # and its final ret belong to no statement
            body = [a for a in body if ops[a] != 'frame']
            while body and ops[body[-1]] == 'ret':
                body.pop()
                break
        for a in body:
            cover = [r for r in ne if r.start_offset <= a < r.end_offset]
            if not cover:
                return 'instruction %s at %d belongs to no statement' % (
                    ops[a], a)
            inner = min(cover, key=lambda r: r.end_offset - r.start_offset)
            same = [r for r in cover
                    if r.end_offset - r.start_offset ==
                    inner.end_offset - inner.start_offset]
            # (a CASE statement and its only clause cover the same range;
            # both name the same source line)
            if len(same) > 1 and any(
                    x.source_start_line != inner.source_start_line
                    for x in same):
                return 'two innermost statements at %d' % a
            ln = inner.source_start_line
            if ln is None or not (1 <= ln <= len(lines)):
                return 'bad line %r at %d' % (ln, a)
            extract = di.source_code[inner.source_start_offset:
                                     inner.source_end_offset]
            if extract.strip() == '' or \
                    extract.strip().split('\n')[0] not in lines[ln - 1]:
                return 'extract %r is not on line %d' % (extract, ln)
    # routine records
    for name, rr in di.routines.items():
        if rr.start_offset not in frame_at:
            return 'routine %s does not start at its frame' % name
        nxt = [f for f in frames if f > rr.start_offset]
        want_end = nxt[0] if nxt else code_len
        if rr.end_offset != want_end:
            return 'routine %s ends at %d, expected %d' % (
                name, rr.end_offset, want_end)
    return None


def check_dbgmap(cid, cfg, *xs):
    """Structure (concrete) + attribution of every device interaction and
    of the failing statement to the spec statement's source line."""
    from crosshair.tracers import NoTracing
    cell = CATALOG[cid]
    opt, dbg = CONFIGS[cfg]
    _, _, module = compile_program(cell.text, opt, dbg)
    key = (cid, cfg)
    with NoTracing():
        if key not in _struct_cache:
            _struct_cache[key] = dbgmap_structure(module, cell.text)
    if _struct_cache[key] is not None:
        return 0
    io_lines = []
    visited = []      # source lines of executed instructions, collapsed

    def per_tick(cpu, ticks):
        with NoTracing():
            prev = cpu.prev_pc
            rec = module.debug_info.find_stmt(prev, cpu)
            ln = rec.source_start_line if rec else None
            if not visited or visited[-1] != ln:
                visited.append(ln)
            if module.code[prev] == 27:         # io
                io_lines.append((len(cpu.devices['terminal'].impl.trace),
                                 ln))

    trace, out, machine = run_impl(cell, cfg, xs, per_tick=per_tick)
    rtrace, res, it = run_ref(cell, xs)
    if not outcome_matches(out, res) or not trace_equal(trace, rtrace):
        return 2          # behaviour itself is C01's subject
    # line of each trace entry according to the debug map
    impl_lines = [None] * len(trace)
    prev_n = 0
    for n_after, ln in io_lines:
        for k in range(prev_n, min(n_after, len(trace))):
            impl_lines[k] = ln
        prev_n = n_after
    for k in range(len(trace)):
        if trace[k][0] == 'pcspkr':
            continue
        if impl_lines[k] != rtrace.lines[k]:
            return 0
    if res[0] == 'error':
        rec = module.debug_info.find_stmt(out.trapped_addr, machine.cpu)
        if rec is None or rec.source_start_line != it.err_line:
            return 0
    # every statement / condition evaluation the reference performed must
    # show up, in order, as executed instructions attributed to its line
    with NoTracing():
        # (the monitor is not called after the halting instruction)
        rec = module.debug_info.find_stmt(machine.cpu.prev_pc, machine.cpu)
        visited.append(rec.source_start_line if rec else None)
        events = []
        for ln in it.events:
            if not events or events[-1] != ln:
                events.append(ln)
        k = 0
        for ln in visited:
            if k < len(events) and events[k] == ln:
                k += 1
        if k != len(events):
            _last_reason[0] = ('line %r (event %d of %r) has no executed '
                               'instruction in order; visited %r' % (
                                   events[k], k, events, visited))
            return 0
    return 1


_last_reason = [None]


def dbgmap_reason(cid, cfg):
    cell = CATALOG[cid]
    opt, dbg = CONFIGS[cfg]
    _, _, module = compile_program(cell.text, opt, dbg)
    return dbgmap_structure(module, cell.text)
