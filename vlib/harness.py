"""Harness entry points called by generated obligation functions.

Return codes of check functions: 1 = the assertion was reached and held,
0 = violated, 2 = path legitimately skipped (outside the obligation's claim).
Obligations assert `_ != 0`; reachability twins assert `_ != 1` and must be
refuted.
"""
from . import symqvm
from .symqvm import (CellType, HaltReason, TrapCode, BudgetExceeded,
                     run_program, compile_program, CONFIGS)
from . import rope
from .rope import trace_equal
from . import qbref
from .qbspec import to_text

rope.install_number_abstraction()

TRAP_CLASS = {
    TrapCode.INVALID_CELL_VALUE: qbref.OVERFLOW,
    TrapCode.DIVISION_BY_ZERO: qbref.DIV0,
    TrapCode.INDEX_OUT_OF_RANGE: qbref.SUBSCRIPT,
    TrapCode.INVALID_OPERAND_VALUE: qbref.ILLEGAL,
    TrapCode.DEVICE_ERROR: qbref.DEVICE,
}

CTYPE = {'%': CellType.INTEGER, '&': CellType.LONG, '!': CellType.SINGLE,
         '#': CellType.DOUBLE, '$': CellType.STRING}

MACHINE_FAULTS = (
    TrapCode.TYPE_MISMATCH, TrapCode.STACK_EMPTY, TrapCode.INVALID_OP_CODE,
    TrapCode.INVALID_LOCAL_VAR_IDX, TrapCode.NULL_REFERENCE,
    TrapCode.INVALID_DIMENSIONS, TrapCode.DEVICE_NOT_AVAILABLE,
    TrapCode.UNINITIALIZED_MEM,
)


class Cell:
    """One catalogue entry: a spec program + its symbolic inputs."""

    def __init__(self, cid, prog, inputs, pre=None, budget=400, family='',
                 ref=True, inkeys=0, peeks=0, note='', tags=(), strlen=None,
                 slow=False):
        self.cid = cid
        self.prog = prog
        self.inputs = inputs      # [(type_char, sentinel)]
        self.pre = pre            # extra precondition over x0..xn (text)
        self.budget = budget
        self.family = family
        self.ref = ref            # has reference semantics
        self.inkeys = inkeys      # number of symbolic INKEY$ results
        self.peeks = peeks
        self.note = note
        self.tags = tuple(tags)
        self.strlen = strlen
        self.slow = slow
        self.text = to_text(prog)

    def params(self):
        ps = []
        n = 0
        for t, _ in self.inputs:
            ps.append(('x%d' % n, 'str' if t == '$' else 'int', t))
            n += 1
        for _ in range(self.inkeys):
            ps.append(('x%d' % n, 'str', '$'))
            n += 1
        for _ in range(self.peeks):
            ps.append(('x%d' % n, 'int', '%'))
            n += 1
        return ps

    def precondition(self, strlen=4):
        if self.strlen is not None:
            strlen = min(strlen, self.strlen)
        cs = []
        for name, _, t in self.params():
            if t == '%':
                cs.append('-32768 <= %s <= 32767' % name)
            elif t == '&':
                cs.append('-2147483648 <= %s <= 2147483647' % name)
            else:
                cs.append('len(%s) <= %d' % (name, strlen))
                cs.append('all(32 <= ord(c) <= 126 for c in %s)' % name)
        if self.pre:
            cs.append('(%s)' % self.pre)
        return ' and '.join(cs) if cs else 'True'

    def split(self, xs):
        n = len(self.inputs)
        seeds = {}
        for (t, sent), x in zip(self.inputs, xs[:n]):
            seeds[(t, sent)] = x
        inkeys = list(xs[n:n + self.inkeys])
        peeks = list(xs[n + self.inkeys:n + self.inkeys + self.peeks])
        return seeds, inkeys, peeks


CATALOG = {}


def register(cell):
    assert cell.cid not in CATALOG, cell.cid
    CATALOG[cell.cid] = cell
    return cell


def run_impl(cell, cfg, xs, per_tick=None, abstract=True):
    opt, dbg = CONFIGS[cfg] if isinstance(cfg, int) else cfg
    seeds, inkeys, peeks = cell.split(xs)
    impl_seeds = {(CTYPE[t], s): v for (t, s), v in seeds.items()}
    rope.set_abstract(abstract)
    trace, out, machine = run_program(
        cell.text, opt, dbg, cell.budget, impl_seeds or None,
        per_tick=per_tick, catch_host_exc=True,
        inkeys=inkeys, peeks=peeks)
    return trace, out, machine


def run_ref(cell, xs, abstract=True):
    seeds, inkeys, peeks = cell.split(xs)
    it = qbref.Interp(cell.prog, seeds, inkeys=inkeys, peeks=peeks,
                      budget=cell.budget * 4, abstract_numbers=abstract)
    res = it.run()
    return it.trace, res, it


def outcome_matches(out, res):
    if out.exc is not None:
        return False
    if res[0] == 'end':
        return out.halt == HaltReason.INSTRUCTION
    if out.halt != HaltReason.TRAP:
        return False
    return TRAP_CLASS.get(out.trap) == res[1]


def check_ref(cid, cfg, *xs):
    """C01: implementation at configuration cfg vs reference semantics."""
    cell = CATALOG[cid]
    trace, out, _ = run_impl(cell, cfg, xs)
    rtrace, res, _ = run_ref(cell, xs)
    if not outcome_matches(out, res):
        return 0
    if not trace_equal(trace, rtrace):
        return 0
    return 1


def check_pair(cid, cfg_a, cfg_b, *xs):
    """C02.3 / C08: two configurations of the same program agree."""
    cell = CATALOG[cid]
    ta, oa, _ = run_impl(cell, cfg_a, xs)
    tb, ob, _ = run_impl(cell, cfg_b, xs)
    if oa.key() != ob.key():
        return 0
    if not trace_equal(ta, tb):
        return 0
    return 1


def describe(cid, cfg, *xs):
    """Human-readable replay of one cell (used by --replay)."""
    cell = CATALOG[cid]
    trace, out, _ = run_impl(cell, cfg, xs)
    lines = ['program:', cell.text, 'inputs: %r' % (xs,),
             'impl trace: %r' % (trace,), 'impl outcome: %r' % (out,)]
    if cell.ref:
        rtrace, res, it = run_ref(cell, xs)
        lines += ['ref trace: %r' % (rtrace,), 'ref outcome: %r' % (res,)]
    return '\n'.join(lines)
