"""Typed spec-AST for a BASIC subset, with a pretty-printer to source text.

Programs are born here (never parsed by us): the printer emits text for the
real compiler, and the reference interpreter (qbref) evaluates the spec-AST
itself, so a parser defect is not common-mode.

Expressions (tuples):
  ('lit', t, v)            t in % & ! # $
  ('var', 'name%')         scalar (type from suffix)
  ('bin', op, l, r)        + - * / \\ MOD ^ = <> < > <= >= AND OR XOR EQV IMP
  ('un', op, e)            - + NOT
  ('fn', NAME, [args])     builtin function
  ('idx', 'arr%', [e..])   array element
  ('fld', base, ['f',..], t)  record field of ('var'|'idx') base; t = type
  ('call', 'fname%', [args])  user FUNCTION call
Statements (tuples):
  ('let', lvalue, e) ('print', [item..]) items: expr | ';' | ','
  ('if', [(cond, [stmts])..], else|None)   block IF
  ('if1', cond, [stmts], else|None)        single-line IF
  ('for', ('var',..), from, to, step|None, body)
  ('while', cond, body)
  ('do', kind, cond|None, body)  kind: forever do_while do_until loop_while loop_until
  ('select', e, [([clause..], body)..], else|None)
        clause: ('eq', e) ('is', op, e) ('to', e1, e2)
  ('exit', 'for'|'do'|'sub'|'function')
  ('label', name) ('goto', name) ('gosub', name) ('return',)  (main level)
  ('callsub', name, [args])
  ('dim', kind, [decl..]) kind: dim shared static; decl: (name, dims|None, astype|None)
        dims: [(lo_expr, hi_expr)..]
  ('const', name, e) ('end',) ('beep',) ('setret', e)
  ('data', 'raw text') ('read', [lvalue..]) ('restore', label|None)
  ('onerror', label|0|'next') ('resume', 'same'|'next')
  ('input', prompt|None, sep, [lvalue..])
  ('raw', text)  -- device statements etc. (ignored by the reference)
Program: Prog(types, main, subs)
"""

TYPES = '%&!#$'
TNAME = {'%': 'INTEGER', '&': 'LONG', '!': 'SINGLE', '#': 'DOUBLE',
         '$': 'STRING'}
RANK = {'%': 0, '&': 1, '!': 2, '#': 3}
ARITH = ('+', '-', '*', '/', '\\', 'MOD', '^')
CMP = ('=', '<>', '<', '>', '<=', '>=')
LOGIC = ('AND', 'OR', 'XOR', 'EQV', 'IMP')

FN_TYPES = {
    'ASC': '%', 'CHR$': '$', 'CINT': '%', 'CLNG': '&', 'INSTR': '&',
    'INT': '&', 'LCASE$': '$', 'LEFT$': '$', 'LEN': '&', 'LTRIM$': '$',
    'MID$': '$', 'RIGHT$': '$', 'RTRIM$': '$', 'SPACE$': '$', 'STR$': '$',
    'STRING$': '$', 'UCASE$': '$', 'VAL': '#', 'LBOUND': '&', 'UBOUND': '&',
    'PEEK': '%', 'INKEY$': '$', 'ERR': '%', 'RND': '!', 'TIMER': '!',
}


class St(tuple):
    """A statement occurrence: a tuple with its own identity (equal
    constant tuples may be one shared object in CPython, and the line table
    is keyed by identity)."""
    __slots__ = ()


def fresh(stmt):
    k = stmt[0]

    def body(b):
        return None if b is None else [fresh(x) for x in b]
    if k == 'if':
        return St(('if', [(c, body(b)) for c, b in stmt[1]], body(stmt[2])))
    if k == 'if1':
        return St(('if1', stmt[1], body(stmt[2]), body(stmt[3])))
    if k == 'for':
        return St(stmt[:5] + (body(stmt[5]),))
    if k == 'while':
        return St(('while', stmt[1], body(stmt[2])))
    if k == 'do':
        return St(('do', stmt[1], stmt[2], body(stmt[3])))
    if k == 'select':
        return St(('select', stmt[1],
                   [(cl, body(b)) for cl, b in stmt[2]], body(stmt[3])))
    if k == 'line':
        return St(('line', body(stmt[1])))
    return St(stmt)


class Sub:
    def __init__(self, name, kind, params, body, static=False):
        # params: [('p%', None) | ('r', 'pt') | ('a%()', None)]
        self.name = name          # for FUNCTION includes type suffix
        self.kind = kind          # 'sub' | 'function'
        self.params = params
        self.body = [fresh(x) for x in body]
        self.static = static


class Prog:
    def __init__(self, main, subs=(), types=(), subs_first=False):
        # subs_first: procedures are printed above the module-level code
        self.subs_first = subs_first
        self.main = [fresh(x) for x in main]
        self.subs = list(subs)
        # types: [('pt', [('x%', None) | ('inner', 'other')])]
        self.types = list(types)
        self.lines = None   # filled by to_text: list of (line_no, stmt)

    def user_type(self, name):
        for n, fields in self.types:
            if n == name:
                return fields
        raise KeyError(name)


def lit(t, v):
    return ('lit', t, v)


def var(name):
    return ('var', name)


def vtype(name):
    if name[-1] in TYPES:
        return name[-1]
    return '!'


def etype(e, prog=None):
    k = e[0]
    if k == 'lit':
        return e[1]
    if k == 'var':
        return vtype(e[1])
    if k == 'idx':
        return vtype(e[1])
    if k == 'fld':
        return e[3]
    if k == 'call':
        return vtype(e[1])
    if k == 'fn':
        if e[1] == 'ABS':
            return etype(e[2][0], prog)
        return FN_TYPES[e[1]]
    if k == 'un':
        t = etype(e[2], prog)
        if e[1] == 'NOT':
            return '%' if t == '%' else '&'
        return t
    if k == 'bin':
        op = e[1]
        lt, rt = etype(e[2], prog), etype(e[3], prog)
        if op in CMP:
            return '%'
        if lt == '$' or rt == '$':
            assert lt == rt == '$' and op == '+', e
            return '$'
        if op in LOGIC or op in ('\\', 'MOD'):
            return '%' if lt == rt == '%' else '&'
        m = lt if RANK[lt] >= RANK[rt] else rt
        if op == '/' and m in '%&':
            return '!'
        return m
    raise ValueError(e)


# ---------------------------------------------------------------------
# Pretty printer
# ---------------------------------------------------------------------

def _fmt_float(v, t):
    s = repr(float(v))
    if 'e' in s or 'inf' in s or 'nan' in s:
        raise ValueError('float literal %r not printable' % v)
    return s + t


def expr_text(e):
    k = e[0]
    if k == 'lit':
        t, v = e[1], e[2]
        if t == '$':
            assert '"' not in v
            return '"%s"' % v
        if t in '%&':
            assert v >= 0, 'negative literals are written with unary minus'
            return '%d%s' % (v, t)
        assert v >= 0
        return _fmt_float(v, t)
    if k == 'var':
        return e[1]
    if k == 'idx':
        return '%s(%s)' % (e[1], ', '.join(expr_text(i) for i in e[2]))
    if k == 'fld':
        return expr_text(e[1]) + ''.join('.' + f for f in e[2])
    if k == 'call':
        if not e[2]:
            return e[1]
        return '%s(%s)' % (e[1], ', '.join(expr_text(a) for a in e[2]))
    if k == 'fn':
        if not e[2]:
            return e[1]
        args = []
        for a in e[2]:
            if a[0] == 'arrname':
                args.append(a[1])
            else:
                args.append(expr_text(a))
        return '%s(%s)' % (e[1], ', '.join(args))
    if k == 'un':
        return '(%s %s)' % (e[1], expr_text(e[2]))
    if k == 'bin':
        return '(%s %s %s)' % (expr_text(e[2]), e[1], expr_text(e[3]))
    raise ValueError(e)


class _Printer:
    def __init__(self):
        self.out = []       # text lines
        self.cur_sub = None
        self.lines = []     # (line_no, stmt, depth)

    def emit(self, text, stmt=None, depth=0):
        self.out.append('  ' * depth + text)
        if stmt is not None:
            self.lines.append((len(self.out), stmt))

    def decl_text(self, d):
        name, dims, astype = d
        s = name
        if dims is not None:
            s += '(%s)' % ', '.join(
                '%s TO %s' % (expr_text(lo), expr_text(hi))
                for lo, hi in dims)
        if astype:
            s += ' AS ' + astype
        return s

    def simple(self, s):
        """Text of a simple (one-line) statement."""
        k = s[0]
        if k == 'let':
            return '%s = %s' % (expr_text(s[1]), expr_text(s[2]))
        if k == 'setret':
            return '%s = %s' % (self.cur_sub, expr_text(s[1]))
        if k == 'print':
            parts = []
            for it in s[1]:
                parts.append(it if it in (';', ',') else expr_text(it))
            return ('PRINT ' + ' '.join(parts)).rstrip()
        if k == 'exit':
            return 'EXIT ' + s[1].upper()
        if k == 'goto':
            return 'GOTO %s' % (s[1],)
        if k == 'gosub':
            return 'GOSUB %s' % (s[1],)
        if k == 'return':
            return 'RETURN'
        if k == 'callsub':
            if s[2]:
                return 'CALL %s(%s)' % (s[1], ', '.join(
                    (a[1] + '()') if a[0] == 'arrname' else expr_text(a)
                    for a in s[2]))
            return 'CALL ' + s[1]
        if k == 'dim':
            kw = {'dim': 'DIM', 'shared': 'DIM SHARED',
                  'static': 'STATIC'}[s[1]]
            return kw + ' ' + ', '.join(self.decl_text(d) for d in s[2])
        if k == 'const':
            return 'CONST %s = %s' % (s[1], expr_text(s[2]))
        if k == 'end':
            return 'END'
        if k == 'beep':
            return 'BEEP'
        if k == 'data':
            return 'DATA ' + s[1]
        if k == 'read':
            return 'READ ' + ', '.join(expr_text(v) for v in s[1])
        if k == 'restore':
            return 'RESTORE' + (' ' + s[1] if s[1] else '')
        if k == 'onerror':
            if s[1] == 'next':
                return 'ON ERROR RESUME NEXT'
            return 'ON ERROR GOTO %s' % s[1]
        if k == 'resume':
            return 'RESUME' + (' NEXT' if s[1] == 'next' else '')
        if k == 'input':
            prompt, sep, vars_ = s[1], s[2], s[3]
            t = 'INPUT '
            if prompt is not None:
                t += '"%s"%s ' % (prompt, sep)
            return t + ', '.join(expr_text(v) for v in vars_)
        if k == 'raw':
            return s[1]
        raise ValueError(s)

    def stmts(self, body, depth):
        for s in body:
            self.stmt(s, depth)

    def stmt(self, s, depth):
        k = s[0]
        if k == 'label':
            self.emit(s[1] + ':', s, 0)
        elif k == 'lineno':
            self.emit('%d' % s[1], s, 0)
        elif k == 'line':
            # several simple statements on one line
            self.emit(': '.join(self.simple(x) for x in s[1]), s, depth)
            for x in s[1]:
                self.lines.append((len(self.out), x))
        elif k == 'if':
            first = True
            for cond, body in s[1]:
                kw = 'IF' if first else 'ELSEIF'
                self.emit('%s %s THEN' % (kw, expr_text(cond)),
                          ('ifhead', s, cond), depth)
                first = False
                self.stmts(body, depth + 1)
            if s[2] is not None:
                self.emit('ELSE', None, depth)
                self.stmts(s[2], depth + 1)
            self.emit('END IF', None, depth)
        elif k == 'if1':
            t = 'IF %s THEN %s' % (
                expr_text(s[1]), ': '.join(self.simple(x) for x in s[2]))
            if s[3] is not None:
                t += ' ELSE ' + ': '.join(self.simple(x) for x in s[3])
            self.emit(t, s, depth)
            for x in s[2] + (s[3] or []):
                self.lines.append((len(self.out), x))
        elif k == 'for':
            t = 'FOR %s = %s TO %s' % (
                expr_text(s[1]), expr_text(s[2]), expr_text(s[3]))
            if s[4] is not None:
                t += ' STEP ' + expr_text(s[4])
            self.emit(t, s, depth)
            self.stmts(s[5], depth + 1)
            self.emit('NEXT', ('next', s), depth)
        elif k == 'while':
            self.emit('WHILE ' + expr_text(s[1]), s, depth)
            self.stmts(s[2], depth + 1)
            self.emit('WEND', None, depth)
        elif k == 'do':
            kind, cond, body = s[1], s[2], s[3]
            head, tail = 'DO', 'LOOP'
            if kind == 'do_while':
                head += ' WHILE ' + expr_text(cond)
            elif kind == 'do_until':
                head += ' UNTIL ' + expr_text(cond)
            elif kind == 'loop_while':
                tail += ' WHILE ' + expr_text(cond)
            elif kind == 'loop_until':
                tail += ' UNTIL ' + expr_text(cond)
            self.emit(head, s, depth)
            self.stmts(body, depth + 1)
            self.emit(tail, ('loop', s), depth)
        elif k == 'select':
            self.emit('SELECT CASE ' + expr_text(s[1]), s, depth)
            for clauses, body in s[2]:
                cs = []
                for c in clauses:
                    if c[0] == 'eq':
                        cs.append(expr_text(c[1]))
                    elif c[0] == 'is':
                        cs.append('IS %s %s' % (c[1], expr_text(c[2])))
                    else:
                        cs.append('%s TO %s' % (expr_text(c[1]),
                                                expr_text(c[2])))
                self.emit('CASE ' + ', '.join(cs), ('case', s), depth)
                self.stmts(body, depth + 1)
            if s[3] is not None:
                self.emit('CASE ELSE', None, depth)
                self.stmts(s[3], depth + 1)
            self.emit('END SELECT', None, depth)
        else:
            self.emit(self.simple(s), s, depth)


def to_text(prog):
    """Returns source text; fills prog.lines with (line_no, stmt) pairs so
    that oracles know the source line of every spec statement."""
    p = _Printer()
    for name, fields in prog.types:
        p.emit('TYPE ' + name)
        for fname, ftype in fields:
            if ftype is None:
                p.emit('  %s AS %s' % (fname[:-1], TNAME[fname[-1]]))
            else:
                p.emit('  %s AS %s' % (fname, ftype))
        p.emit('END TYPE')
    if not getattr(prog, 'subs_first', False):
        p.stmts(prog.main, 0)
    for sub in prog.subs:
        params = ', '.join(
            (n + (' AS ' + t if t else '')) for n, t in sub.params)
        kw = 'SUB' if sub.kind == 'sub' else 'FUNCTION'
        head = '%s %s' % (kw, sub.name)
        if params:
            head += ' (%s)' % params
        if sub.static:
            head += ' STATIC'
        p.emit(head, ('subhead', sub))
        p.cur_sub = sub.name
        p.stmts(sub.body, 1)
        p.cur_sub = None
        p.emit('END ' + kw, ('subend', sub))
    if getattr(prog, 'subs_first', False):
        p.stmts(prog.main, 0)
    prog.lines = p.lines
    return '\n'.join(p.out) + '\n'


def line_of(prog, stmt):
    for ln, s in prog.lines:
        if s is stmt:
            return ln
    return None
