#!/usr/bin/env python3
"""Create the /verif/.venv overlay (offline) if it is missing.

The overlay is a venv of /venv/bin/python whose site-packages gets a .pth
file adding /venv's site-packages (pyparsing etc.) and /repo, plus
crosshair-tool and z3-solver installed from the offline wheelhouse.
Idempotent; every check calls it first because a fresh restore has no .venv.
"""
import os
import subprocess
import sys
import fcntl

VERIF = os.path.dirname(os.path.dirname(os.path.abspath(__file__)))
VENV = os.path.join(VERIF, '.venv')
PY = os.path.join(VENV, 'bin', 'python')
WHEELS = '/opt/veriftools/wheels'
BASE_PY = '/venv/bin/python'
REPO = os.environ.get('QBEE_REPO', '/repo')


def ok():
    if not os.path.exists(PY):
        return False
    r = subprocess.run(
        [PY, '-c', 'import crosshair, z3, pyparsing, qbee.compiler'],
        capture_output=True)
    return r.returncode == 0


def main():
    os.makedirs(os.path.join(VERIF, 'build'), exist_ok=True)
    lock = open(os.path.join(VERIF, 'build', '.bootstrap.lock'), 'w')
    fcntl.flock(lock, fcntl.LOCK_EX)
    try:
        if ok():
            return 0
        subprocess.check_call([BASE_PY, '-m', 'venv', '--clear', VENV])
        sp = subprocess.check_output(
            [PY, '-c', 'import site;print(site.getsitepackages()[0])'],
            text=True).strip()
        with open(os.path.join(sp, 'qbee_overlay.pth'), 'w') as f:
            f.write('/venv/lib/python3.12/site-packages\n%s\n' % REPO)
        env = dict(os.environ, PIP_NO_INDEX='1')
        subprocess.check_call(
            [PY, '-m', 'pip', 'install', '-q', '--no-index',
             '--find-links', WHEELS, 'crosshair-tool', 'z3-solver'],
            env=env)
        if not ok():
            print('bootstrap: overlay venv unusable', file=sys.stderr)
            return 3
        return 0
    finally:
        fcntl.flock(lock, fcntl.LOCK_UN)


if __name__ == '__main__':
    sys.exit(main())
