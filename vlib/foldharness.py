"""C02 family 1: constant folder vs machine, and family 2: peephole windows.

The real Expr.fold() of a BinaryOp/UnaryOp over NumericLiteral operands with
SYMBOLIC values is compared with executing the code the real gen_binary_op /
gen_unary_op emits for the same (unfolded) node on the real QvmCpu.
Instructions are dispatched to the real QvmCpu._exec_* methods directly (no
assembler in between, so operands stay symbolic); the assembler's operand
packing is checked as a range condition on the folded literal.
"""
from crosshair.tracers import NoTracing

from qbee import expr, qvm_codegen
from qbee.compiler import CompilationUnit
from qbee.expr import (BinaryOp, UnaryOp, NumericLiteral, StringLiteral,
                       Operator, Type)
from qvm.cell import CellType, CellValue
from qvm.cpu import QvmCpu
from qvm.trap import Trapped, TrapCode

TYPES = {'%': Type.INTEGER, '&': Type.LONG, '!': Type.SINGLE,
         '#': Type.DOUBLE}
CT = {'%': CellType.INTEGER, '&': CellType.LONG, '!': CellType.SINGLE,
      '#': CellType.DOUBLE, '$': CellType.STRING}
OPS = {
    '+': Operator.ADD, '-': Operator.SUB, '*': Operator.MUL,
    '/': Operator.DIV, 'MOD': Operator.MOD, '\\': Operator.INTDIV,
    '^': Operator.EXP, '=': Operator.CMP_EQ, '<>': Operator.CMP_NE,
    '<': Operator.CMP_LT, '>': Operator.CMP_GT, '<=': Operator.CMP_LE,
    '>=': Operator.CMP_GE, 'AND': Operator.AND, 'OR': Operator.OR,
    'XOR': Operator.XOR, 'EQV': Operator.EQV, 'IMP': Operator.IMP,
}
UOPS = {'NEG': Operator.NEG, 'NOT': Operator.NOT, 'PLUS': Operator.PLUS}
RANGE = {'%': (-32768, 32767), '&': (-2147483648, 2147483647)}


class _Module:
    """Minimal module object for a bare QvmCpu."""
    n_global_cells = 0
    code = b''
    literals = []
    data = []
    debug_info = None


def new_cpu():
    return QvmCpu(_Module())


def exec_instrs(cpu, instrs, max_steps=200):
    """Dispatch instructions to the real _exec_* methods.  Labels inside the
    list are honoured (a jump to one continues there); a jump to a label
    outside the list, halt, ret, retv, ijmp and call end the run.
    Returns ('ok',) | ('trap', TrapCode) | ('exc', name) |
    ('leave', how, target)."""
    labels = {}
    for k, ins in enumerate(instrs):
        if ins.op.name == '_LABEL':
            labels[ins.args[0]] = k
    pc = 0
    steps = 0
    while pc < len(instrs):
        steps += 1
        if steps > max_steps:
            return ('leave', 'budget', ())
        ins = instrs[pc]
        pc += 1
        op, *args = ins.final
        if op.startswith('_'):
            continue
        if op in ('halt', 'ret', 'retv', 'ijmp', 'call'):
            return ('leave', op, tuple(args))
        if op in ('jmp', 'jz'):
            if op == 'jz':
                try:
                    v = cpu.pop(CellType.INTEGER)
                except Trapped as e:
                    return ('trap', e.trap_code)
                if v != 0:
                    continue
            if args[0] in labels:
                pc = labels[args[0]]
                continue
            return ('leave', 'goto', tuple(args))
        name = op
        for ch, rep in (('%', '_integer'), ('&', '_long'), ('!', '_single'),
                        ('#', '_double'), ('$', '_string'),
                        ('@', '_reference')):
            name = name.replace(ch, rep)
        if op.startswith('push$'):
            args = [args[0][1:-1]]
        func = getattr(cpu, '_exec_' + name)
        try:
            func(*args)
        except Trapped as e:
            return ('trap', e.trap_code)
        except ZeroDivisionError:
            return ('trap', TrapCode.DIVISION_BY_ZERO)
        except Exception as e:  # host exception out of an instruction
            return ('exc', type(e).__name__)
    return ('ok',)


def gen_expr_code(node):
    """Real code generation for one expression node (no folding)."""
    comp = CompilationUnit()
    node.bind(comp)
    cg = qvm_codegen.QvmCodeGen(comp, debug_info=False)
    code = qvm_codegen.QvmCode()
    cg.init_code(code)
    cg.gen_code_for_node(node, code)
    return code


def mk_literal(t, v):
    if t == '$':
        return StringLiteral(v)
    return NumericLiteral(v, TYPES[t])


def _encodable(t, v):
    """What QvmCode.assembled's struct.pack accepts for a push operand."""
    if t in RANGE:
        lo, hi = RANGE[t]
        return lo <= v <= hi
    if t == '!':
        return Type.SINGLE.can_hold(v)
    return True


def check_fold_binary(op, lt, rt, a, b):
    """1 held / 0 violated."""
    node = BinaryOp(mk_literal(lt, a), mk_literal(rt, b), OPS[op])
    comp = CompilationUnit()
    node.bind(comp)
    try:
        folded = node.fold()
    except Exception:
        return 0            # the compiler crashes on a constant expression
    code = gen_expr_code(BinaryOp(mk_literal(lt, a), mk_literal(rt, b),
                                  OPS[op]))
    cpu = new_cpu()
    res = exec_instrs(cpu, code._instrs)
    return _compare(folded, node, res, cpu)


def check_fold_unary(op, t, a):
    node = UnaryOp(mk_literal(t, a), UOPS[op])
    comp = CompilationUnit()
    node.bind(comp)
    try:
        folded = node.fold()
    except Exception:
        return 0
    code = gen_expr_code(UnaryOp(mk_literal(t, a), UOPS[op]))
    cpu = new_cpu()
    res = exec_instrs(cpu, code._instrs)
    return _compare(folded, node, res, cpu)


def _compare(folded, node, res, cpu):
    was_folded = folded is not node
    if res[0] == 'exc':
        # run-time evaluation itself breaks the VM: C07's subject; for C02
        # the folder must then not have produced a value either
        return 0 if was_folded else 2
    if res[0] == 'trap':
        return 0 if was_folded else 1
    if len(cpu.stack) != 1:
        return 0
    cell = cpu.stack[0]
    if not was_folded:
        return 1
    tchar = folded.type.type_char
    if CT[tchar] != cell.type:
        return 0
    # the cell type the generated code leaves must be the static type
    if CT[node.type.type_char] != cell.type:
        return 0
    if not _encodable(tchar, folded.value):
        return 0
    v = folded.value
    if tchar == '!':
        # the assembler stores a SINGLE literal as binary32
        v = Type.SINGLE.coerce(v)
    if v != cell.value:
        return 0
    if isinstance(v, float) and isinstance(cell.value, float):
        import math
        if math.copysign(1.0, v) != math.copysign(1.0, cell.value):
            return 0
    return 1


# ---------------------------------------------------------------------
# Family 2: peephole windows
# ---------------------------------------------------------------------

def run_window(instr_tuples, stack_init, cells_init):
    """Execute a straight-line window on a fresh CPU whose frame has
    len(cells_init) cells; returns (result, stack, cells)."""
    from qvm.cpu import CallFrame
    cpu = new_cpu()
    cpu.cur_frame = CallFrame(len(cells_init), None, 0, 0)
    for i, c in enumerate(cells_init):
        if c is not None:
            cpu.cur_frame.cells[i] = CellValue(CT[c[0]], c[1])
    for t, v in stack_init:
        cpu.stack.append(CellValue(CT[t], v))
    if instr_tuples and isinstance(instr_tuples[0], tuple):
        code = qvm_codegen.QvmCode()
        code.add(*instr_tuples)
        instrs = code._instrs
    else:
        instrs = list(instr_tuples)
    res = exec_instrs(cpu, instrs)
    return res, cpu


def optimize_window(instr_tuples):
    code = qvm_codegen.QvmCode()
    code.add(*instr_tuples)
    code.optimize()
    return code._instrs


def _cells_equal(a, b):
    if len(a) != len(b):
        return False
    for x, y in zip(a, b):
        if (x is None) != (y is None):
            return False
        if x is None:
            continue
        if x.type != y.type:
            return False
        if x.value != y.value:
            return False
    return True


def check_window(instr_tuples, stack_init, cells_init, local_names):
    """The optimised window behaves like the original from the same state.
    Variable operands are symbolic names resolved through local_names
    (name -> frame index) because the real assembler is not involved."""
    def resolve(instrs):
        # variable operands are names; the real assembler maps them to
        # frame indices, here local_names does
        for ins in instrs:
            if ins.op.name in ('READ', 'STORE') and ins.args and \
                    isinstance(ins.args[0], str):
                ins.args = [local_names[ins.args[0]]]
        return instrs

    try:
        opt = optimize_window(instr_tuples)
    except Exception:
        return 0        # the optimiser crashes
    orig = qvm_codegen.QvmCode()
    orig.add(*instr_tuples)
    r1, cpu1 = run_window(resolve(orig._instrs), stack_init, cells_init)
    r2, cpu2 = run_window(resolve(opt), stack_init, cells_init)
    if r1[0] == 'exc' or r2[0] == 'exc':
        return 0 if r1 != r2 else 2
    if r1 != r2:
        return 0
    if r1[0] == 'trap':
        return 1
    # ('ok',) or ('leave', ...): state must agree too
    if not _cells_equal(cpu1.stack, cpu2.stack):
        return 0
    if not _cells_equal(cpu1.cur_frame.cells, cpu2.cur_frame.cells):
        return 0
    return 1
