"""CrossHair 0.0.110 adaptations needed before it can confirm anything on the
real qbee / qvm code.  Each adaptation was found necessary by a probe (see
DESIGN.md section 2.2) and is listed in the evidence of every check.

install() must be called once per process, after striplog.install() and
before the harness module is analysed.
"""
import builtins
import ctypes
import enum
import signal

ADAPTATIONS = [
    'analysis_kind=PEP316 only (leading asserts are not contracts)',
    'crosshair.core.consider_shortcircuit disabled',
    'MapAddInterceptor skipped for enum keys (CrossHair/CPython SystemError)',
    'callable(sym atomic) -> False without realisation',
    'ctypes.c_short/c_long(.value) modelled as 16/64-bit wrap for symbolic ints',
    'signal.signal is a no-op inside harnesses',
    'int(str) model extended with blanks/sign prefix (validated against CPython)',
    'float(str): well-formedness decided by a per-character state machine, well-formed numerals realised (validated against CPython)',
    'format(x, spec): symbolic ints/strs kept symbolic for empty and <N/>N specs',
    'math.floor/ceil(symbolic int) -> the int itself (no realisation)',
    'symbolic str.strip/lstrip/rstrip(): per-character forking instead of realisation',
    'format(sym int, "0Nx") -> opaque placeholder (diagnostic messages only)',
    're.Pattern.fullmatch of the two numeral patterns of qvm.machine on a symbolic string: hand-written scanner (validated against re)',
]

_installed = False


def install():
    global _installed
    if _installed:
        return
    _installed = True

    import crosshair.core as core
    import crosshair.core_and_libs  # noqa: registers library patches
    from crosshair import opcode_intercept
    from crosshair.libimpl import builtinslib
    from crosshair.libimpl.builtinslib import (
        SymbolicInt, SymbolicFloat, AnySymbolicStr, SymbolicBool,
    )
    from crosshair.tracers import NoTracing, ResumedTracing
    from crosshair.tracers import frame_stack_read
    from crosshair.util import CrossHairValue

    # 1. never short-circuit (CrossHair's own contract on hash() would turn
    #    CanonicalOp.__hash__ / Type.__hash__ into symbolic proxies)
    core.consider_shortcircuit = lambda *a, **k: None

    # 2. MAP_ADD with enum keys
    orig_map_add = opcode_intercept.MapAddInterceptor.trace_op

    def map_add_trace_op(self, frame, codeobj, codenum):
        try:
            key = frame_stack_read(frame, -2)
        except Exception:
            key = None
        if isinstance(key, enum.Enum):
            return
        return orig_map_add(self, frame, codeobj, codenum)

    opcode_intercept.MapAddInterceptor.trace_op = map_add_trace_op

    # 3. callable()
    EXTRA = {}

    def _callable(x):
        with NoTracing():
            if isinstance(x, (SymbolicInt, SymbolicFloat, AnySymbolicStr,
                              SymbolicBool)):
                return False
        return callable(x)  # next layer: CrossHair's own patch

    EXTRA[builtins.callable] = _callable

    # 4. ctypes wrap-around
    class _CVal:
        __slots__ = ('value',)

        def __init__(self, value):
            self.value = value

    def _mk_ctype_model(ctype, bits):
        half = 1 << (bits - 1)
        mod = 1 << bits

        def model(x=0):
            with NoTracing():
                sym = isinstance(x, SymbolicInt)
                cv = isinstance(x, CrossHairValue)
            if sym:
                return _CVal((x + half) % mod - half)
            with NoTracing():
                if cv:
                    from crosshair.core import deep_realize
                    x = deep_realize(x)
                return ctype(x)
        return model

    EXTRA[ctypes.c_short] = _mk_ctype_model(ctypes.c_short, 16)
    EXTRA[ctypes.c_long] = _mk_ctype_model(
        ctypes.c_long, 8 * ctypes.sizeof(ctypes.c_long))

    # 5. signal.signal
    signal.signal = lambda *a, **k: None

    # 6. int(str) with blanks / sign
    _MISSING = builtinslib._MISSING
    _PLAIN_INVALID = frozenset(
        '!"#$%&\'()*,./:;<=>?@[\\]^`{|}~'
        'abcdefghijklmnopqrstuvwxyzABCDEFGHIJKLMNOPQRSTUVWXYZ')

    def _int_ext(val=0, base=_MISSING):
        with NoTracing():
            symstr = isinstance(val, AnySymbolicStr) and base is _MISSING
        if not symstr:
            if base is _MISSING:
                return int(val)  # next layer: CrossHair's own patch
            return int(val, base)
        # state machine: blanks* sign? digits+ blanks*
        n = len(val)
        st = 0  # 0 leading blanks, 1 after sign, 2 in digits, 3 trailing
        neg = False
        ret = 0
        i = 0
        while i < n:
            ch = val[i]
            i += 1
            if ch == ' ':
                if st == 0 or st == 3:
                    continue
                if st == 2:
                    st = 3
                    continue
                raise ValueError('invalid literal for int()')
            o = ord(ch)
            if 48 <= o <= 57:
                if st == 3:
                    raise ValueError('invalid literal for int()')
                st = 2
                ret = ret * 10 + (o - 48)
                continue
            if ch == '-' or ch == '+':
                if st != 0:
                    raise ValueError('invalid literal for int()')
                st = 1
                neg = (ch == '-')
                continue
            # printable ASCII other than digits, sign, blank and '_' can
            # never be part of an int() literal (numeric tests only: a
            # set/str membership test would hash -- realise -- the char)
            if 33 <= o <= 126 and o != 95:
                raise ValueError('invalid literal for int()')
            # anything else ('_', other whitespace, unicode digits, ...):
            # fall back to CPython on the realised value
            with NoTracing():
                from crosshair.core import realize
                concrete = realize(val)
                return int(concrete)
        if st != 2 and st != 3:
            raise ValueError('invalid literal for int()')
        return -ret if neg else ret

    EXTRA[builtins.int] = _int_ext

    # 6b. float(str): decide well-formedness symbolically (per-character
    #     state machine); only well-formed numerals are realised
    def _float_ext(val=0.0):
        with NoTracing():
            symstr = isinstance(val, AnySymbolicStr)
        if not symstr:
            return float(val)  # next layer: CrossHair's own patch
        n = len(val)
        st = 0   # 0 lead blanks, 1 after sign, 2 int digits, 3 after '.',
        #          4 fraction digits, 5 trailing blanks
        ndig = 0
        i = 0
        fallback = False
        while i < n:
            ch = val[i]
            i += 1
            o = ord(ch)
            if o == 32:
                if st == 0 or st == 5:
                    continue
                if st in (2, 3, 4) and ndig > 0:
                    st = 5
                    continue
                raise ValueError('could not convert string to float')
            if 48 <= o <= 57:
                if st == 5:
                    raise ValueError('could not convert string to float')
                ndig += 1
                st = 4 if st in (3, 4) else 2
                continue
            if o == 43 or o == 45:
                if st != 0:
                    raise ValueError('could not convert string to float')
                st = 1
                continue
            if o == 46:
                if st in (0, 1, 2):
                    st = 3
                    continue
                raise ValueError('could not convert string to float')
            # letters that occur in exponents / inf / nan / infinity, '_'
            # and anything outside printable ASCII: let CPython decide
            if o in (95, 69, 101, 73, 105, 78, 110, 70, 102, 65, 97, 84,
                     116, 89, 121) or o < 33 or o > 126:
                fallback = True
                break
            raise ValueError('could not convert string to float')
        if not fallback and ndig == 0:
            raise ValueError('could not convert string to float')
        with NoTracing():
            from crosshair.core import realize
            concrete = realize(val)
            return float(concrete)

    EXTRA[builtins.float] = _float_ext

    # 7. format() keeping symbolic ints / strs symbolic for alignment specs

    def _format_ext(obj, format_spec=''):
        with NoTracing():
            keep = (isinstance(obj, (SymbolicInt, AnySymbolicStr)) and
                    isinstance(format_spec, str))
            spec = format_spec if keep else None
        if keep:
            parsed = _parse_align_spec(spec)
            if parsed is not None:
                fill, align, width = parsed
                s = str(obj)
                pad = width - len(s)
                if pad > 0:
                    if align == '<':
                        return s + fill * pad
                    return fill * pad + s
                return s
            if _HEX_DIAG.match(spec):
                # zero-padded hex is only used for diagnostics (error_msg
                # of device errors); keep the value unrealised
                return '<hex>'
        return format(obj, format_spec)  # next layer

    EXTRA[builtins.format] = _format_ext

    # 8. math.floor / math.ceil of a symbolic int is the int itself
    import math

    def _mk_int_identity(fn):
        def model(x):
            with NoTracing():
                sym = isinstance(x, SymbolicInt)
            if sym:
                return x
            return fn(x)  # next layer
        return model

    EXTRA[math.floor] = _mk_int_identity(math.floor)
    EXTRA[math.ceil] = _mk_int_identity(math.ceil)

    # 9. str.strip/lstrip/rstrip() of a symbolic string: CrossHair's own
    #    implementation realises; fork per character instead
    _WS = frozenset([9, 10, 11, 12, 13, 28, 29, 30, 31, 32, 133, 160, 5760,
                     8232, 8233, 8239, 8287, 12288] + list(range(8192, 8203)))

    def _is_ws(o):
        # numeric tests only (no hashing of a symbolic value)
        if o == 32:
            return True
        if o < 9 or (13 < o < 28) or (32 < o < 133):
            return False
        with NoTracing():
            from crosshair.core import realize
            oc = realize(o)
        return oc in _WS

    def _mk_strip(orig, left, right):
        def strip(self, chars=None):
            if chars is not None:
                return orig(self, chars)
            n = len(self)
            i = 0
            if left:
                while i < n and _is_ws(ord(self[i])):
                    i += 1
            j = n
            if right:
                while j > i and _is_ws(ord(self[j - 1])):
                    j -= 1
            return self[i:j]
        return strip

    LS = builtinslib.LazyIntSymbolicStr
    LS.strip = _mk_strip(LS.strip, True, True)
    LS.lstrip = _mk_strip(LS.lstrip, True, False)
    LS.rstrip = _mk_strip(LS.rstrip, False, True)

    # 10. re.Pattern.fullmatch for the two numeral patterns of
    #     qvm.machine (INPUT / READ numbers): CrossHair turns a regex on a
    #     symbolic string into a z3 regex query, which makes a 10-character
    #     numeral intractable; a hand-written scanner decides the same
    #     language by per-character comparisons.  Only truthiness of the
    #     result is used by the callers.  Validated against re below.
    import re as _re_mod
    NUMERAL_RE = (r'[+-]?(\d+\.?\d*|\.\d+)([eEdD][+-]?\d+)?', _re_mod.ASCII)
    INTEGRAL_RE = (r'[+-]?\d+', _re_mod.ASCII)

    def _pattern_fullmatch(self, string, *a):
        with NoTracing():
            sym = isinstance(string, AnySymbolicStr)
            key = (self.pattern, self.flags & _re_mod.ASCII)
            known = key in ((NUMERAL_RE[0], _re_mod.ASCII),
                            (INTEGRAL_RE[0], _re_mod.ASCII))
            integral = self.pattern == INTEGRAL_RE[0]
        if not sym or not known or a:
            return self.fullmatch(string, *a)   # next layer
        return scan_numeral(string, integral)

    EXTRA[_re_mod.Pattern.fullmatch] = _pattern_fullmatch

    # layer EXTRA on top of CrossHair's own registrations
    from crosshair.tracers import COMPOSITE_TRACER
    orig_enter = core.Patched.__enter__
    orig_exit = core.Patched.__exit__

    def p_enter(self):
        r = orig_enter(self)
        COMPOSITE_TRACER.patching_module.add(EXTRA)
        return r

    def p_exit(self, *a):
        COMPOSITE_TRACER.patching_module.pop(EXTRA)
        return orig_exit(self, *a)

    core.Patched.__enter__ = p_enter
    core.Patched.__exit__ = p_exit


import re as _re
_HEX_DIAG = _re.compile(r'^0\d+x$')


def _parse_align_spec(spec):
    """'' | [fill]('<'|'>')N  -> (fill, align, width) or None."""
    if spec == '':
        return (' ', '<', 0)
    fill = ' '
    rest = spec
    if len(rest) >= 2 and rest[1] in '<>':
        fill, rest = rest[0], rest[1:]
    if not rest or rest[0] not in '<>':
        return None
    align = rest[0]
    digits = rest[1:]
    if not digits.isdigit() or digits[0] == '0':
        return None
    return (fill, align, int(digits))


def validate_int_model():
    """The extended int() model restated as a pure function, compared with
    CPython's int on a boundary table.  Mismatch => the caller must treat
    the run as a harness error."""
    table = ['', ' ', '0', '7', '-7', '+7', ' 7', '7 ', ' -7 ', '- 7', '--7',
             '7-', '1 2', '00012', '-0', '+', '-', ' + ', '1.0', '1e3', 'x',
             '12x', ',', '2147483648', '-2147483649', '99999999999', ' 32768',
             '3 ', '  ', '+-1', '1+', '1,2']
    for s in table:
        try:
            exp = ('ok', int(s))
        except ValueError:
            exp = ('err', None)
        got = _int_model_ref(s)
        if got != exp:
            return 'int model mismatch on %r: %r vs %r' % (s, got, exp)
    return None


def _float_model_ref(val):
    st = 0
    ndig = 0
    for ch in val:
        o = ord(ch)
        if o == 32:
            if st in (0, 5):
                continue
            if st in (2, 3, 4) and ndig > 0:
                st = 5
                continue
            return 'err'
        if 48 <= o <= 57:
            if st == 5:
                return 'err'
            ndig += 1
            st = 4 if st in (3, 4) else 2
            continue
        if o in (43, 45):
            if st != 0:
                return 'err'
            st = 1
            continue
        if o == 46:
            if st in (0, 1, 2):
                st = 3
                continue
            return 'err'
        if o in (95, 69, 101, 73, 105, 78, 110, 70, 102, 65, 97, 84, 116,
                 89, 121) or o < 33 or o > 126:
            return 'cpython'
        return 'err'
    if ndig == 0:
        return 'err'
    return 'ok'


def validate_float_model():
    import itertools
    for L in range(0, 5):
        for t in itertools.product('1.- +x', repeat=L):
            s = ''.join(t)
            try:
                float(s)
                exp = 'ok'
            except ValueError:
                exp = 'err'
            got = _float_model_ref(s)
            if got != 'cpython' and got != exp:
                return 'float model mismatch on %r: %s vs %s' % (s, got, exp)
    return None


def _int_model_ref(val):
    st = 0
    neg = False
    ret = 0
    for ch in val:
        if ch == ' ':
            if st in (0, 3):
                continue
            if st == 2:
                st = 3
                continue
            return ('err', None)
        o = ord(ch)
        if 48 <= o <= 57:
            if st == 3:
                return ('err', None)
            st = 2
            ret = ret * 10 + (o - 48)
            continue
        if ch in '+-':
            if st != 0:
                return ('err', None)
            st = 1
            neg = ch == '-'
            continue
        return ('err', None)
    if st not in (2, 3):
        return ('err', None)
    return ('ok', -ret if neg else ret)


def scan_numeral(text, integral):
    """True iff text is [+-]?digits (integral) or
    [+-]?(digits[.digits*] | .digits)([eEdD][+-]?digits)? -- ASCII digits."""
    n = len(text)
    i = 0
    if i < n and (text[i] == '+' or text[i] == '-'):
        i += 1
    nd = 0
    while i < n and 48 <= ord(text[i]) <= 57:
        i += 1
        nd += 1
    if integral:
        return nd > 0 and i == n
    if i < n and text[i] == '.':
        i += 1
        nf = 0
        while i < n and 48 <= ord(text[i]) <= 57:
            i += 1
            nf += 1
        if nd == 0 and nf == 0:
            return False
    elif nd == 0:
        return False
    if i < n and text[i] in 'eEdD':
        i += 1
        if i < n and (text[i] == '+' or text[i] == '-'):
            i += 1
        ne = 0
        while i < n and 48 <= ord(text[i]) <= 57:
            i += 1
            ne += 1
        if ne == 0:
            return False
    return i == n


def validate_numeral_model():
    import itertools
    import re
    pn = re.compile(r'[+-]?(\d+\.?\d*|\.\d+)([eEdD][+-]?\d+)?', re.ASCII)
    pi = re.compile(r'[+-]?\d+', re.ASCII)
    alpha = '1+-.eD x'
    for n in range(0, 6):
        for t in itertools.product(alpha, repeat=n):
            s = ''.join(t)
            if bool(pn.fullmatch(s)) != scan_numeral(s, False):
                return 'numeral scanner disagrees with re on %r' % s
            if bool(pi.fullmatch(s)) != scan_numeral(s, True):
                return 'integral scanner disagrees with re on %r' % s
    return None
