"""Import hook: load /repo's qbee.* and qvm.* modules from their *current*
source files with logging calls stripped.

Why: `logger.info(f'... {value}')` inside the VM's conv/deref/push paths
formats (and therefore realises) symbolic operands when the code is executed
under CrossHair.  The transform is deliberately tiny:

 * expression statements `logger.<level>(...)` / `logging.<level>(...)`
   become `pass`;
 * `print(...)` expression statements inside `QvmCpu._trap` only become
   `pass` (trap diagnostics on stdout, not device interactions).

Nothing else is rewritten.  The number of removed statements per module is
kept in REMOVED and is reported in the evidence.
"""
import ast
import importlib.abc
import importlib.util
import os
import sys

REPO = os.environ.get('QBEE_REPO', '/repo')
REMOVED = {}
_LEVELS = {'debug', 'info', 'warning', 'error', 'critical', 'exception',
           'log'}


class _Strip(ast.NodeTransformer):
    def __init__(self):
        self.removed = 0
        self.fn_stack = []

    def visit_FunctionDef(self, node):
        self.fn_stack.append(node.name)
        self.generic_visit(node)
        self.fn_stack.pop()
        return node

    def visit_Expr(self, node):
        v = node.value
        if isinstance(v, ast.Call):
            f = v.func
            if (isinstance(f, ast.Attribute) and
                    isinstance(f.value, ast.Name) and
                    f.value.id in ('logger', 'logging') and
                    f.attr in _LEVELS):
                self.removed += 1
                return ast.copy_location(ast.Pass(), node)
            if (isinstance(f, ast.Name) and f.id == 'print' and
                    self.fn_stack and self.fn_stack[-1] == '_trap'):
                self.removed += 1
                return ast.copy_location(ast.Pass(), node)
        return node


class _Loader(importlib.abc.SourceLoader):
    def __init__(self, fullname, path):
        self.fullname = fullname
        self.path = path

    def get_filename(self, fullname):
        return self.path

    def get_data(self, path):
        with open(path, 'rb') as f:
            return f.read()

    def get_code(self, fullname):
        src = self.get_data(self.path)
        tree = ast.parse(src, filename=self.path)
        t = _Strip()
        tree = t.visit(tree)
        ast.fix_missing_locations(tree)
        REMOVED[fullname] = t.removed
        return compile(tree, self.path, 'exec', dont_inherit=True)


class _Finder(importlib.abc.MetaPathFinder):
    def find_spec(self, fullname, path, target=None):
        parts = fullname.split('.')
        if len(parts) != 2 or parts[0] not in ('qbee', 'qvm'):
            return None
        fn = os.path.join(REPO, parts[0], parts[1] + '.py')
        if not os.path.exists(fn):
            return None
        return importlib.util.spec_from_file_location(
            fullname, fn, loader=_Loader(fullname, fn))


_installed = False


def install():
    global _installed
    if _installed:
        return
    for name in list(sys.modules):
        if name.split('.')[0] in ('qbee', 'qvm') and '.' in name:
            raise RuntimeError(
                'striplog.install() called after %s was imported' % name)
    sys.dont_write_bytecode = True
    if REPO not in sys.path:
        sys.path.insert(0, REPO)
    sys.meta_path.insert(0, _Finder())
    _installed = True
