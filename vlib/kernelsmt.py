"""Engine C: leaf kernels over floats, decided by z3 directly.

CrossHair realises every float (A.2 of DESIGN.md), so the float -> INTEGER /
LONG conversion kernels of the VM are quantified over here instead: the
kernel's *expression* is read from /repo's current source with `ast`,
translated into z3 floating-point terms (Float64, the representation of a
Python float), and the negated lemma is handed to z3.  `unsat` = the lemma
holds for every one of the 2^64 bit patterns that satisfy the precondition
(finite); `sat` = a concrete double, which is replayed against the real
Python code before it is reported; `unknown` = inconclusive.

Translated subset (anything else raises Unsupported -> the obligation is
inconclusive, never discharged):

  float variable                        Float64 term
  round(x)            (one argument)    fpRoundToIntegral(RNE, x)   [Python: half to even, returns int]
  int(x)                                fpRoundToIntegral(RTZ, x)   [truncation; identity on integral x]
  math.floor / math.ceil                RTN / RTP
  integer constants, -c, a ** b, a + b, a - b, a * b on constants
                                        folded in Python, must be exactly representable
  x + y, x - y, x * y on floats         fpAdd/fpSub/fpMul RNE (int constants converted exactly, as Python does)
  a <= b <= c, <, >, >=, ==, !=         exact comparisons (both sides are exact double values)
  and / or / not / IfExp

A Python int that results from int()/round() of a double is represented by
the integral double itself: that is exact, because every such int IS a
double value (no rounding happens until the int is used in int arithmetic,
which the subset does not contain).
"""
import ast
import os
import time

import z3

REPO = os.environ.get('QBEE_REPO', '/repo')
F64 = z3.Float64()
RNE, RTZ, RTN, RTP = z3.RNE(), z3.RTZ(), z3.RTN(), z3.RTP()


class Unsupported(Exception):
    pass


def source(rel):
    with open(os.path.join(REPO, rel)) as f:
        return f.read()


def find_function(tree, name):
    for node in ast.walk(tree):
        if isinstance(node, (ast.FunctionDef, ast.AsyncFunctionDef)) and \
                node.name == name:
            return node
    raise Unsupported('function %s not found' % name)


def const_value(node):
    """Python-level constant folding of literal integer arithmetic."""
    if isinstance(node, ast.Constant) and isinstance(node.value, (int, float)) \
            and not isinstance(node.value, bool):
        return node.value
    if isinstance(node, ast.UnaryOp) and isinstance(node.op, ast.USub):
        v = const_value(node.operand)
        return None if v is None else -v
    if isinstance(node, ast.BinOp):
        a, b = const_value(node.left), const_value(node.right)
        if a is None or b is None:
            return None
        if isinstance(node.op, ast.Pow):
            return a ** b
        if isinstance(node.op, ast.Add):
            return a + b
        if isinstance(node.op, ast.Sub):
            return a - b
        if isinstance(node.op, ast.Mult):
            return a * b
    return None


def fpconst(v):
    if isinstance(v, int):
        if float(v) != v:
            raise Unsupported('integer constant %d is not a double' % v)
        v = float(v)
    return z3.FPVal(v, F64)


def module_constants(rel):
    """Module-level `NAME = <constant arithmetic>` assignments."""
    out = {}
    for node in ast.parse(source(rel)).body:
        if isinstance(node, ast.Assign) and len(node.targets) == 1 and \
                isinstance(node.targets[0], ast.Name):
            v = const_value(node.value)
            if v is not None:
                out[node.targets[0].id] = v
    return out


class Translator:
    def __init__(self, env, consts=None):
        self.env = env          # ast.unparse(text) -> Float64 term
        self.consts = consts or {}

    def expr(self, node):
        key = ast.unparse(node)
        if key in self.env:
            return self.env[key]
        if isinstance(node, ast.Name) and node.id in self.consts:
            return fpconst(self.consts[node.id])
        c = const_value(node)
        if c is not None:
            return fpconst(c)
        if isinstance(node, ast.Call) and not node.keywords:
            fn = ast.unparse(node.func)
            if fn == 'round' and len(node.args) == 1:
                return z3.fpRoundToIntegral(RNE, self.expr(node.args[0]))
            if fn == 'int' and len(node.args) == 1:
                return z3.fpRoundToIntegral(RTZ, self.expr(node.args[0]))
            if fn == 'math.floor' and len(node.args) == 1:
                return z3.fpRoundToIntegral(RTN, self.expr(node.args[0]))
            if fn == 'math.ceil' and len(node.args) == 1:
                return z3.fpRoundToIntegral(RTP, self.expr(node.args[0]))
            if fn == 'float' and len(node.args) == 1:
                return self.expr(node.args[0])
            if fn == 'abs' and len(node.args) == 1:
                return z3.fpAbs(self.expr(node.args[0]))
            raise Unsupported('call ' + key)
        if isinstance(node, ast.BinOp):
            a, b = self.expr(node.left), self.expr(node.right)
            if isinstance(node.op, ast.Add):
                return z3.fpAdd(RNE, a, b)
            if isinstance(node.op, ast.Sub):
                return z3.fpSub(RNE, a, b)
            if isinstance(node.op, ast.Mult):
                return z3.fpMul(RNE, a, b)
            raise Unsupported('operator in ' + key)
        if isinstance(node, ast.UnaryOp) and isinstance(node.op, ast.USub):
            return z3.fpNeg(self.expr(node.operand))
        if isinstance(node, ast.IfExp):
            return z3.If(self.cond(node.test), self.expr(node.body),
                         self.expr(node.orelse))
        raise Unsupported('expression ' + key)

    def cond(self, node):
        if isinstance(node, ast.Compare):
            terms = [self.expr(node.left)] + [self.expr(c)
                                               for c in node.comparators]
            parts = []
            for op, a, b in zip(node.ops, terms, terms[1:]):
                if isinstance(op, ast.LtE):
                    parts.append(z3.fpLEQ(a, b))
                elif isinstance(op, ast.Lt):
                    parts.append(z3.fpLT(a, b))
                elif isinstance(op, ast.GtE):
                    parts.append(z3.fpGEQ(a, b))
                elif isinstance(op, ast.Gt):
                    parts.append(z3.fpGT(a, b))
                elif isinstance(op, ast.Eq):
                    parts.append(z3.fpEQ(a, b))
                elif isinstance(op, ast.NotEq):
                    parts.append(z3.Not(z3.fpEQ(a, b)))
                else:
                    raise Unsupported('comparison in ' + ast.unparse(node))
            return z3.And(*parts)
        if isinstance(node, ast.BoolOp):
            vs = [self.cond(v) for v in node.values]
            return z3.And(*vs) if isinstance(node.op, ast.And) else z3.Or(*vs)
        if isinstance(node, ast.UnaryOp) and isinstance(node.op, ast.Not):
            return z3.Not(self.cond(node.operand))
        if isinstance(node, ast.Constant) and isinstance(node.value, bool):
            return z3.BoolVal(node.value)
        raise Unsupported('condition ' + ast.unparse(node))


# ---------------------------------------------------------------------------
# extraction of the kernels from /repo's current source

def conv_lambda():
    """qvm/cpu.py: `conv_func = lambda n: ...` of the conv_<float>_<int>
    instruction family."""
    tree = ast.parse(source('qvm/cpu.py'))
    for node in ast.walk(tree):
        if isinstance(node, ast.Assign) and len(node.targets) == 1 and \
                ast.unparse(node.targets[0]) == 'conv_func' and \
                isinstance(node.value, ast.Lambda):
            lam = node.value
            if len(lam.args.args) != 1:
                raise Unsupported('conv lambda arity')
            return lam.body, lam.args.args[0].arg, ast.unparse(lam)
    raise Unsupported('conv lambda not found in qvm/cpu.py')


def assigned_expr(rel, func, target, var):
    """The expression assigned to `target` in function `func` (must be the
    only such assignment)."""
    fn = find_function(ast.parse(source(rel)), func)
    hits = [n for n in ast.walk(fn) if isinstance(n, ast.Assign) and
            len(n.targets) == 1 and ast.unparse(n.targets[0]) == target]
    if len(hits) != 1:
        raise Unsupported('%s: %d assignments to %s' % (func, len(hits),
                                                        target))
    return hits[0].value, var, ast.unparse(hits[0].value)


def last_return(rel, func, var):
    fn = find_function(ast.parse(source(rel)), func)
    rets = [n for n in fn.body if isinstance(n, ast.Return)]
    if not rets or fn.body[-1] is not rets[-1]:
        raise Unsupported('%s does not end in a return' % func)
    return rets[-1].value, var, ast.unparse(rets[-1].value)


def can_hold_range(type_name):
    """qbee/expr.py Type.can_hold: the expression returned under
    `self._type == BuiltinType.<type_name>`."""
    fn = find_function(ast.parse(source('qbee/expr.py')), 'can_hold')
    want = 'self._type == BuiltinType.%s' % type_name
    for node in ast.walk(fn):
        if isinstance(node, ast.If) and ast.unparse(node.test) == want:
            if len(node.body) == 1 and isinstance(node.body[0], ast.Return):
                return node.body[0].value
            raise Unsupported('can_hold branch for %s is not a single return'
                              % type_name)
    raise Unsupported('can_hold branch for %s not found' % type_name)


F32 = z3.Float32()


def pack_f_succeeds(v):
    """Model of struct.pack('>f', v) for a finite double v: CPython
    (PyFloat_Pack4) rounds to binary32, nearest-even, and raises
    OverflowError iff the rounded value is infinite."""
    return z3.Not(z3.fpIsInf(z3.fpToFP(RNE, v, F32)))


def single_can_hold(v):
    """qbee/expr.py Type.can_hold, SINGLE branch, as a z3 condition on the
    Float64 term v.  Two shapes are translated: try: struct.pack('>f',
    value) / except OverflowError: return False / else: return True, and a
    single `return <comparison>`."""
    fn = find_function(ast.parse(source('qbee/expr.py')), 'can_hold')
    want = 'self._type == BuiltinType.SINGLE'
    for node in ast.walk(fn):
        if isinstance(node, ast.If) and ast.unparse(node.test) == want:
            body = [b for b in node.body
                    if not isinstance(b, (ast.Import, ast.ImportFrom))]
            text = '; '.join(ast.unparse(b).replace('\n', ' ') for b in body)
            if len(body) == 1 and isinstance(body[0], ast.Return):
                tr = Translator({'value': v}, module_constants('qbee/expr.py'))
                return tr.cond(body[0].value), text
            if len(body) == 1 and isinstance(body[0], ast.Try):
                t = body[0]
                if [ast.unparse(x) for x in t.body] == \
                        ["struct.pack('>f', value)"] and \
                        len(t.handlers) == 1 and \
                        ast.unparse(t.handlers[0].type) == 'OverflowError' and \
                        [ast.unparse(x) for x in t.handlers[0].body] == \
                        ['return False'] and \
                        [ast.unparse(x) for x in t.orelse] == \
                        ['return True'] and not t.finalbody:
                    return pack_f_succeeds(v), text
            raise Unsupported('SINGLE branch of can_hold: ' + text)
    raise Unsupported('SINGLE branch of can_hold not found')


def decide_single():
    """for all finite doubles v: can_hold_SINGLE(v) <=> v rounds to a finite
    binary32 (so Type.coerce, which packs with struct, cannot raise, and
    nothing that fits is rejected)."""
    v = z3.FP('v', F64)
    acc, text = single_can_hold(v)
    s = z3.Solver()
    s.set('timeout', 120000)
    s.add(z3.Not(z3.fpIsNaN(v)), z3.Not(z3.fpIsInf(v)))
    s.add(acc != pack_f_succeeds(v))
    t0 = time.time()
    r = str(s.check())
    d = {'lemma': 'single-accepted-iff-rounds-to-finite-binary32',
         'result': r, 'seconds': round(time.time() - t0, 2), 'source': text}
    if r == 'sat':
        d['model'] = fp_to_float(s.model()[v])
    return d


RANGES = {'INTEGER': (-32768, 32767), 'LONG': (-2 ** 31, 2 ** 31 - 1)}


def lemmas(kernel, var, type_name):
    """-> (n, [(name, z3 formula that must be valid)]).  The value lemmas
    are stated for accepted values only: a rejected value is discarded by
    the trap, so what it would have been is not observable."""
    n = z3.FP('n', F64)
    r = Translator({var: n}).expr(kernel)
    acc = Translator({'value': r}).cond(can_hold_range(type_name))
    lo, hi = RANGES[type_name]
    half = z3.FPVal(0.5, F64)
    big = z3.FPVal(2.0 ** 52, F64)
    out = []
    out.append(('result-is-integral',
                z3.fpEQ(z3.fpRoundToIntegral(RTZ, r), r)))
    out.append(('accepted-implies-in-range',
                z3.Implies(acc, z3.And(z3.fpLEQ(fpconst(lo), r),
                                       z3.fpLEQ(r, fpconst(hi))))))
    near = z3.If(z3.fpLT(z3.fpAbs(n), big),
                 z3.And(z3.fpLEQ(z3.fpSub(RNE, r, half), n),
                        z3.fpLEQ(n, z3.fpAdd(RNE, r, half))),
                 z3.fpEQ(r, n))
    out.append(('accepted-value-is-nearest-integer', z3.Implies(acc, near)))
    tie = z3.And(z3.fpLT(z3.fpAbs(n), big),
                 z3.Or(z3.fpEQ(n, z3.fpAdd(RNE, r, half)),
                       z3.fpEQ(n, z3.fpSub(RNE, r, half))))
    halfr = z3.fpMul(RNE, r, half)
    out.append(('accepted-ties-go-to-even',
                z3.Implies(z3.And(acc, tie), z3.fpEQ(z3.fpRoundToIntegral(RTZ, halfr),
                                        halfr))))
    # lo is even, hi is odd: lo - 0.5 rounds to lo (accepted), hi + 0.5
    # rounds to hi + 1 (rejected)
    spec_acc = z3.And(z3.fpLEQ(fpconst(lo - 0.5), n),
                      z3.fpLT(n, fpconst(hi + 0.5)))
    out.append(('accepted-iff-rounded-value-fits', acc == spec_acc))
    return n, out


def decide(kernel, var, type_name, timeout_ms=120000):
    """-> list of dicts {lemma, result, model, seconds}"""
    n, ls = lemmas(kernel, var, type_name)
    pre = z3.And(z3.Not(z3.fpIsNaN(n)), z3.Not(z3.fpIsInf(n)))
    res = []
    for name, f in ls:
        s = z3.Solver()
        s.set('timeout', timeout_ms)
        s.add(pre, z3.Not(f))
        t0 = time.time()
        r = str(s.check())
        d = {'lemma': name, 'result': r, 'seconds': round(time.time() - t0,
                                                           2)}
        if r == 'sat':
            m = s.model()[n]
            d['model'] = fp_to_float(m)
        res.append(d)
    return res


def reachability_witness(kernel, var, type_name):
    """Vacuity guard: the same encoding with the lemma `False` must be
    refuted (sat) - the precondition is satisfiable and the kernel
    translates to a term."""
    n = z3.FP('n', F64)
    Translator({var: n}).expr(kernel)
    s = z3.Solver()
    s.add(z3.Not(z3.fpIsNaN(n)), z3.Not(z3.fpIsInf(n)))
    return str(s.check()) == 'sat'


def fp_to_float(m):
    import struct
    bv = z3.simplify(z3.fpToIEEEBV(m)).as_long()
    return struct.unpack('>d', struct.pack('>Q', bv))[0]
