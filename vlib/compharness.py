"""Traced compile with SYMBOLIC literal values (C06, C05, C02.4).

Source *text* is always concrete (pyparsing cannot be executed
symbolically); a template contains sentinel literals such as 11111% and
1111111&.  The text is parsed natively (NoTracing), the sentinel
NumericLiteral nodes get symbolic values of their type, and the real
Compiler.compile() then runs -- traced -- on that tree: passes 1-3, the
constant folder, the code generator, the peephole optimiser, and finally the
assembler (__bytes__) and the listing (__str__).  After the substitution the
tree is exactly the tree the parser would have produced for the text that
spells the value out (NumericLiteral(value, type)); only loc_end of later
nodes differs, which nothing reads.
"""
from crosshair.tracers import NoTracing

from qbee import qvm_codegen  # noqa: F401
import qbee.compiler as qcompiler
from qbee.compiler import Compiler
from qbee.exceptions import SyntaxError as QSyntaxError, CompileError
from qbee import expr as qexpr
from qvm.module import QModule

CONFIGS = [(0, False), (1, False), (2, False), (0, True), (1, True),
           (2, True)]
CFG_NAMES = ['O0', 'O1', 'O2', 'O0g', 'O1g', 'O2g']

SENT = {'%': [11111, 12222, 13333], '&': [1111111, 1222222, 1333333]}
# the parser never produces a negative NumericLiteral: a sign in front of a
# number is a unary operator (probe: every literal of a test text with
# signs everywhere came out positive), so literal values are non-negative
RANGE = {'%': (0, 32767), '&': (0, 2147483647)}


class Tmpl:
    def __init__(self, tid, text, lits, pre=None, family='', note='',
                 small=(0, 1, 2), reject=None, line=None, peeks=0):
        self.tid = tid
        self.text = text if text.endswith('\n') else text + '\n'
        self.lits = list(lits)       # type chars, in order of sentinels
        self.pre = pre               # extra precondition text over a, b, c
        self.family = family
        self.note = note
        self.small = small
        # C05: reject(a, b, ..) -> None (must be accepted) or ErrorCode name
        self.reject = reject
        self.line = line             # 1-based line of the construct
        self.peeks = peeks           # number of symbolic PEEK() results
        self.sentinels = []
        for t in self.lits:
            for cand in SENT[t]:
                if cand not in self.sentinels and \
                        ('%d%s' % (cand, t)) in self.text:
                    self.sentinels.append(cand)
                    break
            else:
                raise AssertionError((tid, t, 'no sentinel literal'))

    def params(self):
        return ['abc'[i] for i in range(len(self.lits))]

    def all_params(self):
        return self.params() + ['p%d' % i for i in range(self.peeks)]

    def precondition(self, exclude_small=True):
        cs = []
        for name, t in zip(self.params(), self.lits):
            lo, hi = RANGE[t]
            cs.append('%d <= %s <= %d' % (lo, name, hi))
            if exclude_small:
                cs.append('%s > 2' % name)
        for i in range(self.peeks):
            cs.append('-32768 <= p%d <= 32767' % i)
        if self.pre:
            cs.append('(%s)' % self.pre)
        return ' and '.join(cs) if cs else 'True'


TEMPLATES = {}


def T(tid, text, lits, **kw):
    assert tid not in TEMPLATES, tid
    TEMPLATES[tid] = Tmpl(tid, text, lits, **kw)
    return TEMPLATES[tid]


def _walk(node, out):
    out.append(node)
    for c in node.children:
        if c is not None:
            _walk(c, out)


def parse_with(text, sentinels, types, values):
    """Parse natively; substitute values for the sentinel literals.
    Returns (tree, number of literals replaced)."""
    with NoTracing():
        from qbee.parser import parse_string
        tree = parse_string(text)
        nodes = []
        _walk(tree, nodes)
        hits = []
        for s, t in zip(sentinels, types):
            want = qexpr.Type.from_type_char(t)
            hits.append([n for n in nodes
                         if isinstance(n, qexpr.NumericLiteral) and
                         n.type == want and n.value == s])
    n = 0
    for found, v in zip(hits, values):
        for node in found:
            node.value = v
            # Node.clone() re-creates a node from its constructor
            # arguments (CONST values are cloned where they are used)
            node._init_args = (v,) + tuple(node._init_args[1:])
            n += 1
    return tree, n


class Result:
    def __init__(self, kind, code=None, exc=None):
        self.kind = kind      # 'ok' | 'diag' | 'crash'
        self.code = code
        self.exc = exc

    def __repr__(self):
        if self.kind == 'diag':
            return 'diag(%s %s loc=%r)' % (
                type(self.exc).__name__,
                getattr(getattr(self.exc, 'code', None), 'name', ''),
                getattr(self.exc, 'loc_start', None))
        if self.kind == 'crash':
            return 'crash(%s: %s)' % (type(self.exc).__name__,
                                      str(self.exc)[:80])
        return 'ok'


def compile_with(tmpl, cfg, values):
    opt, dbg = CONFIGS[cfg]
    tree, n = parse_with(tmpl.text, tmpl.sentinels, tmpl.lits, values)
    if n < len(tmpl.lits):
        raise RuntimeError('template %s: %d sentinel literals found'
                           % (tmpl.tid, n))
    orig = qcompiler.parse_string
    qcompiler.parse_string = lambda s: tree
    try:
        comp = Compiler(codegen_name='qvm', optimization_level=opt,
                        debug_info=dbg)
        try:
            code = comp.compile(tmpl.text)
        except (QSyntaxError, CompileError) as e:
            return Result('diag', exc=e)
        except Exception as e:  # noqa
            return Result('crash', exc=e)
        return Result('ok', code=code)
    finally:
        qcompiler.parse_string = orig


def emit(res):
    """bytes(code) and str(code) of an accepted program.  Returns None or
    the exception."""
    from crosshair.tracers import is_tracing
    import qvm.debug_info as qdi
    orig = qdi.DebugInfo.serialize
    if is_tracing():
        # pickle.dumps / gzip are C code and cannot take symbolic values:
        # in symbolic runs the debug section serialiser returns a
        # placeholder (the collector that builds the DebugInfo object still
        # runs; real serialisation is exercised by the native small-value
        # enumeration and by C09 / C11)
        qdi.DebugInfo.serialize = lambda self: b'<debug-section>'
    try:
        b = res.code.__bytes__()
        s = res.code.__str__()
        if not isinstance(s, str) or len(b) == 0:
            return ValueError('empty output')
    except Exception as e:  # noqa
        return e
    finally:
        qdi.DebugInfo.serialize = orig
    return None


def located(tmpl, exc):
    loc = exc.loc_start
    if loc is None:
        return False
    return 0 <= loc <= len(tmpl.text)


def line_of(text, loc):
    return 1 + text.count('\n', 0, loc)


def _catalog():
    import props.catalog_c06  # noqa: F401  (registers the templates)


def check_total(tid, cfg, *values):
    """C06: a module (that assembles and lists) or a located diagnostic."""
    _catalog()
    tmpl = TEMPLATES[tid]
    res = compile_with(tmpl, cfg, values)
    if res.kind == 'crash':
        return 0
    if res.kind == 'diag':
        return 1 if located(tmpl, res.exc) else 0
    if emit(res) is not None:
        return 0
    return 1


def check_total_small(tid):
    """The five operand values with 1-byte push encodings, all
    combinations, all six configurations (native enumeration)."""
    _catalog()
    import itertools
    tmpl = TEMPLATES[tid]
    for vals in itertools.product(tmpl.small, repeat=len(tmpl.lits)):
        if tmpl.pre:
            env = dict(zip(tmpl.params(), vals))
            if not eval(tmpl.pre, {}, env):
                continue
        for cfg in range(6):
            if check_total(tid, cfg, *vals) != 1:
                FAILED.append((tid, cfg, vals))
                return 0
    return 1


FAILED = []


def describe(tid, cfg, *values):
    _catalog()
    tmpl = TEMPLATES[tid]
    res = compile_with(tmpl, cfg, values)
    extra = ''
    if res.kind == 'ok':
        extra = ' emit: %r' % (emit(res),)
    return '%s\nvalues %r cfg %s -> %r%s' % (tmpl.text, values,
                                            CFG_NAMES[cfg], res, extra)


# -------------------------------------------------------------- C05

def check_static(tid, *values):
    """C05: the template's rule decides, for every literal value, whether
    the program must be rejected and with which category; the verdict must
    be the same at every optimisation level and debug setting, the position
    must be on the line of the offending construct."""
    _catalog()
    tmpl = TEMPLATES[tid]
    want = tmpl.reject(*values)
    for cfg in (0, 2, 4):
        res = compile_with(tmpl, cfg, values)
        if res.kind == 'crash':
            return 0
        if want is None:
            if res.kind != 'ok':
                return 0
        else:
            if res.kind != 'diag':
                return 0
            e = res.exc
            if want != 'SYNTAX':
                if not isinstance(e, CompileError) or e.code.name != want:
                    return 0
            if not located(tmpl, e):
                return 0
            if tmpl.line is not None and \
                    line_of(tmpl.text, e.loc_start) != tmpl.line:
                return 0
    return 1


def check_levels_small(tid):
    """Small literal values (1-byte push encodings) x boundary inputs,
    natively."""
    _catalog()
    import itertools
    tmpl = TEMPLATES[tid]
    pk = [(-32768, -1, 0, 1, 32767)] * tmpl.peeks
    for vals in itertools.product(*([tmpl.small] * len(tmpl.lits) + pk)):
        if check_levels(tid, *vals) != 1:
            FAILED.append((tid, vals))
            return 0
    return 1


def check_static_small(tid):
    _catalog()
    import itertools
    tmpl = TEMPLATES[tid]
    for vals in itertools.product(tmpl.small, repeat=len(tmpl.lits)):
        if tmpl.pre:
            env = dict(zip(tmpl.params(), vals))
            if not eval(tmpl.pre, {}, env):
                continue
        if check_static(tid, *vals) != 1:
            FAILED.append((tid, vals))
            return 0
    return 1


# -------------------------------------------------------------- C02.4

def check_levels(tid, *values):
    """C02 family 4: the same text with the same literal values compiled
    at -O0 and at -O2: same acceptance; when accepted, both modules run on
    the real VM to the same trace and outcome."""
    _catalog()
    from . import symqvm, rope
    from .rope import trace_equal
    rope.install_number_abstraction()
    rope.set_abstract(True)
    tmpl = TEMPLATES[tid]
    outs = []
    peeks = list(values[len(tmpl.lits):])
    values = values[:len(tmpl.lits)]
    for cfg in (0, 2):
        res = compile_with(tmpl, cfg, values)
        if res.kind == 'crash':
            return 0
        if res.kind == 'diag':
            outs.append(('diag', type(res.exc).__name__,
                         getattr(getattr(res.exc, 'code', None), 'name',
                                 None)))
            continue
        try:
            b = res.code.__bytes__()
        except Exception:  # noqa
            return 0
        module = QModule.parse(b)
        impl = symqvm.SymImpl(peeks=list(peeks))
        machine = symqvm.make_machine(module, impl)
        out = symqvm.run_machine(machine, 3000, None, True)
        outs.append(('ran', impl.trace, out))
    a, b = outs
    if a[0] != b[0]:
        return 0
    if a[0] == 'diag':
        return 1 if a == b else 0
    if a[2].key() != b[2].key():
        return 0
    if not trace_equal(a[1], b[1]):
        return 0
    return 1


def check_opt_program(tid, *values):
    """C02 family 4 (peephole optimiser on real program code, SYMBOLIC
    constants and inputs): the template is compiled concretely at -O0 (no
    folding, so every literal is a push operand), the sentinel push
    operands are replaced by symbolic values, and the real
    QvmCode.optimize() runs -- traced -- on that instruction list.  The
    original and the optimised code are assembled by the real assembler,
    loaded and run on the real VM with the same symbolic inputs: trace and
    outcome must agree.  (Tree-level folding is family 1.)"""
    _catalog()
    from . import symqvm, rope
    from .rope import trace_equal
    rope.install_number_abstraction()
    rope.set_abstract(True)
    tmpl = TEMPLATES[tid]
    nl = len(tmpl.lits)
    lits, peeks = values[:nl], list(values[nl:])
    outs = []
    for optimize in (False, True):
        with NoTracing():
            comp = Compiler(codegen_name='qvm', optimization_level=0,
                            debug_info=False)
            code = comp.compile(tmpl.text)
            targets = []
            for s, t in zip(tmpl.sentinels, tmpl.lits):
                hits = [ins for ins in code._instrs
                        if ins.op.name == 'PUSH' and ins.type_char == t and
                        len(ins.args) == 1 and ins.args[0] == s]
                targets.append(hits)
            if any(not h for h in targets):
                raise RuntimeError('template %s: sentinel push not found'
                                   % tid)
        for hits, v in zip(targets, lits):
            for ins in hits:
                ins.args = [v]
        if optimize:
            try:
                code.optimize()
            except Exception:  # noqa
                return 0
        try:
            b = code.__bytes__()
        except Exception:  # noqa
            return 0
        module = QModule.parse(b)
        impl = symqvm.SymImpl(peeks=list(peeks))
        machine = symqvm.make_machine(module, impl)
        out = symqvm.run_machine(machine, 3000, None, True)
        outs.append((impl.trace, out))
    (ta, oa), (tb, ob) = outs
    if oa.key() != ob.key():
        return 0
    if not trace_equal(ta, tb):
        return 0
    return 1


def check_opt_program_small(tid):
    _catalog()
    import itertools
    tmpl = TEMPLATES[tid]
    pk = [(-32768, -1, 0, 1, 32767)] * tmpl.peeks
    for vals in itertools.product(*([tmpl.small] * len(tmpl.lits) + pk)):
        if check_opt_program(tid, *vals) != 1:
            FAILED.append((tid, vals))
            return 0
    return 1
