"""C12 / C13 harness: the real qvm.dbg.Cmd driven through onecmd()."""
from crosshair.tracers import NoTracing

from . import harness as H
from .harness import (CATALOG, CONFIGS, CTYPE, compile_program, run_impl,
                      run_ref, trace_equal)
from . import rope
from .symqvm import (SymImpl, make_machine, beep_seeder, BudgetExceeded,
                     HaltReason, Outcome)
import qvm.dbg as qdbg

BLOCK_STMTS = ('ForStmt', 'NextStmt', 'IfBeginStmt', 'ElseStmt',
               'ElseIfStmt', 'EndIfStmt', 'DoStmt', 'LoopStmt', 'WhileStmt',
               'WendStmt', 'SelectStmt', 'CaseStmt', 'CaseElseStmt',
               'EndSelectStmt', 'SubStmt', 'EndSubStmt', 'FunctionStmt',
               'EndFunctionStmt', 'IfStmt', 'SimpleCaseClause',
               'RangeCaseClause', 'CompareCaseClause', 'ElseClause')


_parser_wrapped = []


def _wrap_expr_parser():
    """pyparsing cannot be executed symbolically (and the expression text
    typed at the prompt is concrete): parse untraced."""
    if _parser_wrapped:
        return
    expr = qdbg.grammar.expr
    orig = expr.parse_string

    def parse_string(*a, **k):
        with NoTracing():
            return orig(*a, **k)
    expr.parse_string = parse_string
    _parser_wrapped.append(True)


class Session:
    def __init__(self, cid, cfg, xs, budget=4000):
        cell = CATALOG[cid]
        self.cell = cell
        opt, dbg = CONFIGS[cfg]
        assert dbg
        _, _, module = compile_program(cell.text, opt, dbg)
        self.module = module
        seeds, inkeys, peeks = cell.split(xs)
        impl_seeds = {(CTYPE[t], s): v for (t, s), v in seeds.items()}
        holder = []
        on_beep = beep_seeder(lambda: holder[0].cpu, impl_seeds) \
            if impl_seeds else None
        rope.set_abstract(True)
        self.impl = SymImpl(on_beep=on_beep, inkeys=inkeys, peeks=peeks,
                            inputs=list(cell._lines))
        self.machine = make_machine(module, self.impl)
        holder.append(self.machine)
        self.cpu = self.machine.cpu
        self.out = []
        qdbg.print = self._print
        self.budget = budget
        self.ticks = 0
        self.cpu.add_breakpoint(self._count)
        self.dbg = qdbg.Cmd(self.machine, module)
        self.dbg.auto_status = 'off'
        _wrap_expr_parser()
        self.exc = None

    def _print(self, *a, **k):
        self.out.append(' '.join(str(x) for x in a))

    def _count(self, cpu):
        self.ticks += 1
        if self.ticks > self.budget:
            raise BudgetExceeded('debug session tick budget')
        return False

    def cmd(self, line):
        try:
            self.dbg.onecmd(line)
        except BudgetExceeded:
            raise
        except Exception as e:
            self.exc = type(e).__name__
            return False
        return True

    def cur_stmt(self):
        with NoTracing():
            return self.dbg.find_nonempty_stmt(self.cpu.pc)

    def depth(self):
        n = 0
        f = self.cpu.cur_frame
        while f is not None:
            n += 1
            f = f.prev_frame
        return n

    def finish(self):
        """Remove user breakpoints and run to the end."""
        with NoTracing():
            for bp in list(self.cpu.breakpoints):
                if isinstance(bp, qdbg.Breakpoint):
                    self.cpu.breakpoints.remove(bp)
        n = 0
        while not self.cpu.halted and n < 3:
            if self.cpu.pc >= len(self.module.code):
                break
            if not self.cmd('continue'):
                break
            n += 1

    def outcome(self):
        cpu = self.cpu
        trap = cpu.last_trap if cpu.halt_reason == HaltReason.TRAP else None
        return (cpu.halt_reason, trap, self.exc)


def free_run(cid, cfg, xs):
    cell = CATALOG[cid]
    trace, out, _ = run_impl(cell, cfg, xs)
    return trace, out


def check_session(cid, cfg, history, *xs):
    """Transparency + progress + next-depth + breakpoint rules for one
    command history."""
    s = Session(cid, cfg, xs)
    stopped_by_bp_expected = None
    for cmd in history:
        name = cmd.split()[0]
        before = s.cur_stmt()
        depth0 = s.depth()
        halted0 = s.cpu.halted
        if not s.cmd(cmd):
            return 0
        if name in ('step', 'next') and not halted0:
            # progress: finished, or in a different statement
            if not s.cpu.halted:
                after = s.cur_stmt()
                if after is not None and before is not None and \
                        after is before and \
                        s.cpu.halt_reason != HaltReason.BREAKPOINT:
                    return 0
                if s.cpu.halt_reason == HaltReason.BREAKPOINT and \
                        s.cpu.last_breakpoint is not None and \
                        not isinstance(s.cpu.last_breakpoint,
                                       qdbg.Breakpoint) and \
                        after is before:
                    return 0
            if name == 'next' and not s.cpu.halted and \
                    s.depth() > depth0:
                # (stopped on the header statement of a SUB / FUNCTION the
                # frame instruction is still to run: executing it with
                # `next` creates the activation that was already entered)
                with NoTracing():
                    entering = before is not None and \
                        type(before.node).__name__ in ('SubStmt', 'FunctionStmt', 'SubBlock',
                                                       'FunctionBlock')
                if not entering:
                    return 0
    s.finish()
    ftrace, fout = free_run(cid, cfg, xs)
    if s.exc is not None:
        return 0
    if (s.cpu.halt_reason, s.outcome()[1]) != (fout.halt, fout.trap):
        return 0
    if not trace_equal(s.impl.trace, ftrace):
        return 0
    return 1


def check_step_sequence(cid, cfg, *xs):
    """Repeated `step` stops in every simple statement the program
    executes, in execution order."""
    s = Session(cid, cfg, xs)
    visited = []

    def note():
        st = s.cur_stmt()
        if st is None:
            return
        with NoTracing():
            kind = type(st.node).__name__
            ln = st.source_start_line
        if kind not in BLOCK_STMTS:
            visited.append(ln)

    if not s.cpu.halted:
        note()
    n = 0
    while not s.cpu.halted and n < 200:
        if s.cpu.pc >= len(s.module.code):
            break
        if not s.cmd('step'):
            return 0
        if not s.cpu.halted:
            note()
        n += 1
    if n >= 200:
        raise BudgetExceeded('step budget')
    rtrace, res, it = run_ref(s.cell, xs)
    if res[0] != 'end':
        return 2
    if not trace_equal(s.impl.trace, rtrace):
        return 0
    # the statement at which the run ends (END / falling off) is included
    # in both sequences when it is a simple statement
    exp = list(it.exec_lines)
    # every executed simple statement is visited, in execution order; the
    # debugger may additionally stop again in a statement that is resumed
    # when a procedure it called returns
    k = 0
    for ln in visited:
        if k < len(exp) and ln == exp[k]:
            k += 1
    if k != len(exp):
        return 0
    for ln in visited:
        if ln not in exp:
            return 0
    return 1


def check_breakpoint(cid, cfg, line, delete, *xs):
    """`break L` + repeated `continue`: every stop is at the first
    instruction of the first non-empty statement at or after line L; the
    number of stops equals the number of times the reference executes that
    statement; after delbr no stop at all."""
    s = Session(cid, cfg, xs)
    with NoTracing():
        stmts = sorted(s.module.debug_info.stmts,
                       key=lambda r: r.source_start_offset)
        target = None
        for st in stmts:
            if st.source_start_line >= line and \
                    st.end_offset > st.start_offset:
                target = st
                break
    if not s.cmd('break %d' % line):
        return 0
    if delete:
        if not s.cmd('delbr %d' % line):
            return 0
    stops = 0
    started_at_target = target is not None and \
        s.cpu.pc == target.start_offset
    n = 0
    while not s.cpu.halted and n < 50:
        if s.cpu.pc >= len(s.module.code):
            break
        if not s.cmd('continue'):
            return 0
        if s.cpu.halt_reason == HaltReason.BREAKPOINT:
            if target is None or s.cpu.pc != target.start_offset:
                return 0
            stops += 1
        n += 1
    if n >= 50:
        raise BudgetExceeded('continue budget')
    if delete or target is None:
        if stops != 0:
            return 0
    ftrace, fout = free_run(cid, cfg, xs)
    if s.exc is not None or not trace_equal(s.impl.trace, ftrace):
        return 0
    if (s.cpu.halt_reason, s.outcome()[1]) != (fout.halt, fout.trap):
        return 0
    if not delete and target is not None:
        rtrace, res, it = run_ref(s.cell, xs)
        if res[0] == 'end':
            with NoTracing():
                tline = target.source_start_line
                kind = type(target.node).__name__
            if kind not in BLOCK_STMTS:
                # executions of the first statement printed on that line
                first = None
                for ln, st in s.cell.prog.lines:
                    if ln == tline and isinstance(st, tuple) and \
                            st[0] not in ('ifhead', 'next', 'loop', 'case',
                                          'subhead', 'subend'):
                        first = st
                        break
                if first is None:
                    return 2
                want = it.exec_count.get(id(first), 0)
                # a stop is counted when control *reaches* the statement;
                # the session starts stopped at the first statement
                if started_at_target:
                    want -= 1
                if stops != want:
                    return 0
    return 1


# ---------------------------------------------------------------------
# C13: debugger expression evaluation
# ---------------------------------------------------------------------

def _state(cpu):
    with NoTracing():
        segs = []
        f = cpu.cur_frame
        while f is not None:
            segs.append(f)
            f = f.prev_frame
        return (cpu.pc, cpu.halted, cpu.halt_reason, len(cpu.stack),
                tuple(id(c) for c in cpu.stack),
                tuple(id(s) for s in segs),
                tuple(tuple(id(c) for c in s.cells) for s in segs),
                tuple(id(c) for c in cpu.globals_segment.cells))


def _has_call(e):
    # the debugger evaluates variables, elements, fields, constants and
    # operators over them; it does not call user functions
    if not isinstance(e, tuple):
        return False
    if e[0] in ('call', 'fn'):
        return True
    return any(_has_call(x) for x in e[1:] if isinstance(x, (tuple, list)))\
        or any(_has_call(y) for x in e[1:] if isinstance(x, list) for y in x)


def _why(tag):
    import os
    import sys
    if os.environ.get('VERIF_DEBUG'):
        sys.stderr.write('C13-WHY %s\n' % tag)
    return 0


def check_dbg_eval(cid, cfg, *xs):
    """At every stop reached by stepping where the next statement is
    `PRINT <expr>`, the debugger's `print <expr>` gives the value the
    program then prints; evaluation changes no VM state; unknown names and
    bad subscripts give an evaluation error, also after the program has
    finished."""
    from .qbspec import expr_text
    from .rope import Rope, NumTok
    s = Session(cid, cfg, xs)
    values = []

    def recorder(*a, **k):
        values.append(a)
    by_line = {}
    for ln, st in s.cell.prog.lines:
        if isinstance(st, tuple) and st[0] == 'print' and \
                len(st[1]) == 1 and st[1][0] not in (';', ',') and \
                not _has_call(st[1][0]):
            by_line[ln] = st[1][0]
    checked = 0
    n = 0
    max_steps = max(120, s.cell.budget // 10)
    while not s.cpu.halted and n < max_steps:
        if s.cpu.pc >= len(s.module.code):
            break
        st = s.cur_stmt()
        ln = None
        kind = None
        if st is not None:
            with NoTracing():
                ln = st.source_start_line
                kind = type(st.node).__name__
                at_start = s.cpu.pc == st.start_offset
        if kind == 'PrintStmt' and ln in by_line and at_start:
            e = by_line[ln]
            before = _state(s.cpu)
            del values[:]
            qdbg.print = recorder
            ok = s.cmd('print ' + expr_text(e))
            qdbg.print = s._print
            if not ok or s.exc is not None:
                return _why(1)
            if _state(s.cpu) != before:
                return _why(2)
            n0 = len(s.impl.trace)
            if len(values) == 1 and len(values[0]) == 2 and \
                    'does not have a value yet' in str(values[0][1]):
                # a never-assigned variable: outside the property ("already
                # assigned variables")
                if not s.cmd('step'):
                    return _why(3)
                n += 1
                continue
            from .qbspec import etype as _et
            is_err = len(values) != 1 or len(values[0]) != 1 or (
                isinstance(values[0][0], str) and
                values[0][0].startswith('Eval error') and
                _et(e, s.cell.prog) != '$')
            if is_err:
                # an evaluation error instead of a value: right only if
                # the program's own evaluation fails too
                if not s.cmd('step'):
                    return _why(4)
                n += 1
                if s.cpu.halted and s.cpu.halt_reason == HaltReason.TRAP \
                        and len(s.impl.trace) == n0:
                    checked += 1
                    continue
                return _why(5)
            dbg_value = values[0][0]
            if not s.cmd('step'):
                return _why(6)
            n += 1
            if len(s.impl.trace) != n0 + 1:
                return _why(7)
            text = s.impl.trace[n0][2]
            parts = text.normal() if isinstance(text, Rope) else [text]
            parts = [p_ for p_ in parts
                     if isinstance(p_, NumTok) or len(p_) > 0]
            if isinstance(parts[0], NumTok):
                if not (parts[0].v == dbg_value):
                    return _why(8)
            else:
                from .qbspec import etype
                if etype(e, s.cell.prog) == '$':
                    if parts[0] != dbg_value + '\r\n':
                        return _why(9)
                else:
                    # a concrete number was printed as text
                    from .qbref import int_text
                    if parts[0] != int_text(dbg_value) + ' \r\n':
                        return _why('10 %r %r %r' % (parts, dbg_value, type(dbg_value)))
            checked += 1
            continue
        if not s.cmd('step'):
            return _why(11)
        n += 1
    if n >= max_steps:
        raise BudgetExceeded('step budget')
    # error paths, also after the program has finished
    for bad in ('nosuchvar%', 'arr&(99)', 'p.nofield', '1 +'):
        del values[:]
        qdbg.print = recorder
        ok = s.cmd('print ' + bad)
        qdbg.print = s._print
        if not ok or s.exc is not None:
            return _why(12)
        if not values or not isinstance(values[0][0], str) or \
                'rror' not in values[0][0]:
            return _why(13)
    return 1 if checked > 0 else 2
