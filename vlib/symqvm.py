"""Compile -> load -> run the real qbee/QVM code with a (possibly symbolic)
environment.  Used by harness functions; works the same natively (replay)
and under CrossHair.
"""
import os

from crosshair.tracers import NoTracing

from qbee import qvm_codegen  # noqa: F401  (registers the code generator)
from qbee.compiler import Compiler
from qvm.cell import CellType, CellValue, Reference
from qvm.cpu import HaltReason, MemorySegment
from qvm.machine import QvmMachine
from qvm.module import QModule
from qvm.trap import TrapCode

CONFIGS = [(0, False), (1, False), (2, False), (0, True), (1, True),
           (2, True), (3, False), (3, True)]


class BudgetExceeded(Exception):
    pass


_cache = {}


def compile_program(src, opt=0, dbg=False):
    """Concrete, untraced compile.  Returns (QvmCode, bytes, QModule)."""
    key = (src, opt, dbg)
    if key in _cache:
        return _cache[key]
    with NoTracing():
        comp = Compiler(codegen_name='qvm', optimization_level=opt,
                        debug_info=dbg)
        code = comp.compile(src)
        bcode = code.__bytes__()
        module = QModule.parse(bcode)
        _cache[key] = (code, bcode, module)
    return _cache[key]


class SymImpl:
    """Peripherals stub: every input method returns the next scripted value
    (which may be symbolic); every output method appends to `trace`."""

    def __init__(self, inkeys=(), peeks=(), inputs=(), rnds=(), timers=(),
                 on_beep=None):
        self.trace = []
        self.inkeys = list(inkeys)
        self.peeks = list(peeks)
        self.inputs = list(inputs)
        self.rnds = list(rnds)
        self.timers = list(timers)
        self.on_beep = on_beep
        self.n_beeps = 0
        self.script_exhausted = False

    # -- outputs -----------------------------------------------------
    def _rec(self, *entry):
        self.trace.append(entry)

    def terminal_print(self, text):
        self._rec('terminal', 'print', text)

    def terminal_cls(self):
        self._rec('terminal', 'cls')

    def terminal_color(self, fg, bg, border):
        self._rec('terminal', 'color', fg, bg, border)

    def terminal_locate(self, row, col, cursor, start, stop):
        self._rec('terminal', 'locate', row, col, cursor, start, stop)

    def terminal_set_mode(self, mode, color_switch, apage, vpage):
        self._rec('terminal', 'set_mode', mode, color_switch, apage, vpage)

    def terminal_width(self, columns, lines):
        self._rec('terminal', 'width', columns, lines)

    def terminal_view_print(self, top, bottom):
        self._rec('terminal', 'view_print', top, bottom)

    def pcspkr_beep(self):
        self.n_beeps += 1
        if self.on_beep is not None:
            self.on_beep(self)
        else:
            self._rec('pcspkr', 'beep')

    def pcspkr_play(self, command):
        self._rec('pcspkr', 'play', command)

    def pcspkr_sound(self, freq, duration):
        self._rec('pcspkr', 'sound', freq, duration)

    def memory_set_segment(self, segment):
        self._rec('memory', 'set_segment', segment)

    def memory_set_default_segment(self):
        self._rec('memory', 'set_default_segment')

    def memory_poke(self, offset, value):
        self._rec('memory', 'poke', offset, value)

    def memory_bsave(self, filespec, offset, length):
        self._rec('memory', 'bsave', filespec, offset, length)

    def memory_bload(self, filespec, offset):
        self._rec('memory', 'bload', filespec, offset)

    def rng_seed(self, seed):
        self._rec('rng', 'seed', seed)

    def fs_kill(self, filespec):
        self._rec('fs', 'kill', filespec)

    # -- inputs ------------------------------------------------------
    def _next(self, lst, default):
        if lst:
            return lst.pop(0)
        self.script_exhausted = True
        return default

    def memory_peek(self, offset):
        self._rec('memory', 'peek', offset)
        return self._next(self.peeks, 0)

    def terminal_inkey(self):
        return self._next(self.inkeys, '')

    def terminal_input(self, same_line):
        self._rec('terminal', 'input', same_line)
        if not self.inputs:
            # an INPUT with no scripted line left: give a line that every
            # numeric or string variable list of length 1 accepts and flag it
            self.script_exhausted = True
            raise BudgetExceeded('input script exhausted')
        return self.inputs.pop(0)

    def rng_get_next(self):
        return self._next(self.rnds, 0.5)

    def rng_get_with_seed(self, seed):
        return abs(seed / 100)

    def time_get_time(self):
        return self._next(self.timers, 0.0)


class Outcome:
    __slots__ = ('halt', 'trap', 'trapped_addr', 'ticks', 'exc')

    def __init__(self, halt, trap, trapped_addr, ticks, exc=None):
        self.halt = halt
        self.trap = trap
        self.trapped_addr = trapped_addr
        self.ticks = ticks
        self.exc = exc

    def key(self):
        return (self.halt, self.trap, self.exc)

    def __repr__(self):
        return 'Outcome(%s,%s,exc=%s)' % (
            self.halt.name if self.halt else None,
            self.trap.name if self.trap else None, self.exc)


class Monitor:
    """Called between ticks by run_machine (through the real breakpoint
    mechanism of QvmCpu.run)."""

    def __init__(self, budget, per_tick=None):
        self.budget = budget
        self.ticks = 0
        self.per_tick = per_tick

    def __call__(self, cpu):
        self.ticks += 1
        if self.per_tick is not None:
            self.per_tick(cpu, self.ticks)
        if self.ticks > self.budget:
            raise BudgetExceeded('tick budget %d exceeded' % self.budget)
        return False


def make_machine(module, impl):
    return QvmMachine(module, impl=impl)


def run_machine(machine, budget, per_tick=None, catch_host_exc=False):
    """Run the real QvmCpu.run() loop with a tick budget (an unwinding
    assertion: exceeding it raises BudgetExceeded)."""
    cpu = machine.cpu
    mon = Monitor(budget, per_tick)
    cpu.add_breakpoint(mon)
    exc = None
    try:
        if catch_host_exc:
            try:
                cpu.run()
            except BudgetExceeded:
                raise
            except Exception as e:  # host exception escaping the VM
                exc = type(e).__name__
                if os.environ.get('VERIF_DEBUG_EXC'):
                    import traceback
                    traceback.print_exc()
        else:
            cpu.run()
    finally:
        cpu.del_breakpoint(mon)
    trap = cpu.last_trap if cpu.halt_reason == HaltReason.TRAP else None
    return Outcome(cpu.halt_reason, trap, cpu.trapped_addr, mon.ticks, exc)


# ---------------------------------------------------------------------
# State seeding: replace sentinel-valued cells by given values
# ---------------------------------------------------------------------

def _segments(cpu):
    segs = []
    seen = set()

    def add(seg):
        if seg is None or id(seg) in seen:
            return
        seen.add(id(seg))
        segs.append(seg)
        for c in seg.cells:
            if c is not None and c.type == CellType.REFERENCE:
                add(c.value.segment)

    add(cpu.globals_segment)
    fr = cpu.cur_frame
    while fr is not None:
        add(fr)
        fr = fr.prev_frame
    return segs


def seed_cells(cpu, mapping):
    """mapping: {(CellType, sentinel_value): new_value}.  Every cell that
    holds a sentinel is overwritten through the real CellValue constructor.
    Returns the number of cells replaced."""
    n = 0
    with NoTracing():
        targets = []
        for seg in _segments(cpu):
            for i, c in enumerate(seg.cells):
                if c is None or c.type == CellType.REFERENCE:
                    continue
                k = (c.type, c.value)
                if k in mapping:
                    targets.append((seg, i, c.type, k))
    for seg, i, ctype, k in targets:
        seg.cells[i] = CellValue(ctype, mapping[k])
        n += 1
    return n


def beep_seeder(get_cpu, mapping, counter=None):
    """on_beep callback: the first BEEP seeds, later BEEPs are recorded."""
    def on_beep(impl):
        if impl.n_beeps == 1:
            k = seed_cells(get_cpu(), mapping)
            if counter is not None:
                counter.append(k)
        else:
            impl._rec('pcspkr', 'beep')
    return on_beep


def make_dumb_impl(**kw):
    """The real DumbPeripheralsImpl (BasePeripheralsImpl + DumbTerminalMixin)
    with stdout/stdin replaced by the trace / the input script."""
    import qvm.machine as machine

    class DumbRec(machine.DumbPeripheralsImpl):
        def __init__(self, inkeys=(), peeks=(), inputs=(), rnds=(),
                     timers=(), on_beep=None):
            machine.DumbPeripheralsImpl.__init__(self)
            self.trace = []
            self.inputs = list(inputs)
            self.rnds = list(rnds)
            self.timers = list(timers)
            self.on_beep = on_beep
            self.n_beeps = 0
            self.script_exhausted = False

        def _rec(self, *entry):
            self.trace.append(entry)

        def _stdout(self, *args, **kwargs):
            self._rec('stdout', ''.join(str(a) for a in args))

        def pcspkr_beep(self):
            self.n_beeps += 1
            if self.on_beep is not None:
                self.on_beep(self)
            else:
                self._rec('pcspkr', 'beep')

        def terminal_input(self, same_line):
            if same_line:
                return machine.DumbPeripheralsImpl.terminal_input(
                    self, same_line)
            if not self.inputs:
                raise BudgetExceeded('input script exhausted')
            return self.inputs.pop(0)

        def rng_get_next(self):
            return self.rnds.pop(0) if self.rnds else 0.5

        def time_get_time(self):
            return self.timers.pop(0) if self.timers else 0.0

    impl = DumbRec(**kw)
    machine.print = impl._stdout      # module-level name shadows builtins
    return impl


def run_program(src, opt, dbg, budget, seeds=None, per_tick=None,
                catch_host_exc=False, impl_kind='sym', **impl_kwargs):
    """Compile (concretely), run with symbolic environment.
    seeds: {(CellType, sentinel): value} applied at the first BEEP.
    Returns (trace, Outcome, machine)."""
    _, _, module = compile_program(src, opt, dbg)
    holder = []
    seeded = []
    on_beep = None
    if seeds:
        on_beep = beep_seeder(lambda: holder[0].cpu, seeds, seeded)
    if impl_kind == 'dumb':
        impl = make_dumb_impl(on_beep=on_beep, **impl_kwargs)
    else:
        impl = SymImpl(on_beep=on_beep, **impl_kwargs)
    machine = make_machine(module, impl)
    holder.append(machine)
    out = run_machine(machine, budget, per_tick, catch_host_exc)
    if seeds and seeded and seeded[0] != len(seeds):
        raise RuntimeError('seeding replaced %r cells, expected %d'
                           % (seeded, len(seeds)))
    return impl.trace, out, machine
