"""Reference semantics of the BASIC subset, as a plain-Python interpreter
over the qbspec AST.  It runs inside the same (traced) harness function as the
real VM, on the same symbolic inputs, so it needs no solver code of its own.

What it asserts is fixed in DESIGN.md section 6a (QBASIC semantics for the
unambiguous core; qbee's documented interface for builtin result types).
"""
import struct

from .qbspec import (CMP, LOGIC, RANK, etype, vtype, line_of)
from .rope import Rope, num_token

I16 = (-32768, 32767)
I32 = (-2147483648, 2147483647)

OVERFLOW = 'overflow'
DIV0 = 'div0'
SUBSCRIPT = 'subscript'
ILLEGAL = 'illegal'
DEVICE = 'device'


class QBError(Exception):
    def __init__(self, cls):
        Exception.__init__(self, cls)
        self.cls = cls
        self.line = None


class _Exit(Exception):
    def __init__(self, kind):
        self.kind = kind


class _Goto(Exception):
    def __init__(self, label):
        self.label = label


class _Gosub(Exception):
    def __init__(self, label):
        self.label = label


class _Return(Exception):
    pass


class _End(Exception):
    pass


class _Resume(Exception):
    def __init__(self, kind):
        self.kind = kind


_SIMPLE_WITH_CODE = ('let', 'setret', 'print', 'exit', 'goto', 'gosub',
                     'return', 'callsub', 'dim', 'end', 'beep', 'read',
                     'restore', 'onerror', 'resume', 'input', 'raw')

ERR_CODES = {OVERFLOW: 10, DIV0: 14, SUBSCRIPT: 11, ILLEGAL: 9, DEVICE: 3}


class RefBudget(Exception):
    pass


class _Trace(list):
    """The reference trace; remembers the source line of the statement
    that produced each entry."""

    def __init__(self, interp):
        list.__init__(self)
        self.interp = interp
        self.lines = []

    def append(self, entry):
        list.append(self, entry)
        self.lines.append(self.interp.cur_line)


class Cell:
    __slots__ = ('t', 'v')

    def __init__(self, t, v=None):
        self.t = t
        self.v = ('' if t == '$' else (0.0 if t in '!#' else 0)) \
            if v is None else v


class Rec:
    __slots__ = ('tname', 'fields')

    def __init__(self, prog, tname):
        self.tname = tname
        self.fields = {}
        for fname, ftype in prog.user_type(tname):
            if ftype is None:
                self.fields[fname[:-1]] = Cell(fname[-1])
            else:
                self.fields[fname] = Rec(prog, ftype)


class Arr:
    __slots__ = ('bounds', 'elems', 'mk')

    def __init__(self, bounds, mk):
        self.bounds = bounds
        self.mk = mk
        self.elems = {}
        # materialise every element (extents are small and concrete)

        def rec(prefix, dims):
            if not dims:
                self.elems[tuple(prefix)] = mk()
                return
            lo, hi = dims[0]
            for i in range(lo, hi + 1):
                rec(prefix + [i], dims[1:])
        rec([], bounds)


def fits(t, v):
    if t == '%':
        return I16[0] <= v <= I16[1]
    if t == '&':
        return I32[0] <= v <= I32[1]
    return True


def to_single(v):
    try:
        return struct.unpack('>f', struct.pack('>f', v))[0]
    except OverflowError:
        raise QBError(OVERFLOW)


def convert(v, ft, tt):
    """Numeric conversion ft -> tt with QB rounding / overflow."""
    if ft == tt:
        return v
    if tt in '%&':
        if ft in '!#':
            if v != v or v in (float('inf'), float('-inf')):
                raise QBError(OVERFLOW)
            v = int(round(v))
        if not fits(tt, v):
            raise QBError(OVERFLOW)
        return v
    if tt == '!':
        return to_single(float(v))
    return float(v)


def _check(t, v):
    if t in '%&':
        if not fits(t, v):
            raise QBError(OVERFLOW)
        return v
    if v != v or v in (float('inf'), float('-inf')):
        raise QBError(OVERFLOW)
    if t == '!':
        return to_single(v)
    return v


def _trunc_div(a, b):
    q = abs(a) // abs(b)
    if (a < 0) != (b < 0):
        q = -q
    return q


def binop(op, lt, lv, rt, rv):
    """Returns (type, value)."""
    if lt == '$':
        if op == '+':
            return '$', lv + rv
        # comparison
        if op == '=':
            r = lv == rv
        elif op == '<>':
            r = lv != rv
        elif op == '<':
            r = lv < rv
        elif op == '>':
            r = lv > rv
        elif op == '<=':
            r = lv <= rv
        else:
            r = lv >= rv
        return '%', (-1 if r else 0)
    m = lt if RANK[lt] >= RANK[rt] else rt
    if op in CMP:
        a, b = convert(lv, lt, m), convert(rv, rt, m)
        if op == '=':
            r = a == b
        elif op == '<>':
            r = a != b
        elif op == '<':
            r = a < b
        elif op == '>':
            r = a > b
        elif op == '<=':
            r = a <= b
        else:
            r = a >= b
        return '%', (-1 if r else 0)
    if op in LOGIC or op in ('\\', 'MOD'):
        t = '%' if lt == rt == '%' else '&'
        a, b = convert(lv, lt, t), convert(rv, rt, t)
        if op == '\\':
            if b == 0:
                raise QBError(DIV0)
            return t, _check(t, _trunc_div(a, b))
        if op == 'MOD':
            if b == 0:
                raise QBError(DIV0)
            # |a| mod |b| with the sign of the dividend
            r = abs(a) % abs(b)
            return t, _check(t, -r if a < 0 else r)
        if op == 'AND':
            r = a & b
        elif op == 'OR':
            r = a | b
        elif op == 'XOR':
            r = a ^ b
        elif op == 'EQV':
            r = ~(a ^ b)
        else:
            r = ~a | b
        return t, r
    if op == '/':
        t = '!' if m in '%&' else m
        a, b = convert(lv, lt, t), convert(rv, rt, t)
        if b == 0:
            raise QBError(DIV0)
        return t, _check(t, a / b)
    a, b = convert(lv, lt, m), convert(rv, rt, m)
    if op == '+':
        r = a + b
    elif op == '-':
        r = a - b
    elif op == '*':
        r = a * b
    else:
        raise ValueError('operator %s has no reference semantics' % op)
    return m, _check(m, r)


def unop(op, t, v):
    if op == '+':
        return t, v
    if op == '-':
        return t, _check(t, -v)
    tt = '%' if t == '%' else '&'
    return tt, ~convert(v, t, tt)


def int_text(v):
    """Independent decimal rendering of a concrete int."""
    if v == 0:
        return ' 0'
    neg = v < 0
    n = -v if neg else v
    digits = ''
    while n > 0:
        digits = chr(48 + n % 10) + digits
        n //= 10
    return ('-' if neg else ' ') + digits


class Interp:
    def __init__(self, prog, seeds=None, inkeys=(), peeks=(), budget=2000,
                 abstract_numbers=True, number_text=None):
        self.prog = prog
        self.seeds = seeds or {}
        self.inkeys = list(inkeys)
        self.peeks = list(peeks)
        self.trace = _Trace(self)
        self.budget = budget
        self.steps = 0
        self.n_beeps = 0
        self.abstract_numbers = abstract_numbers
        self.number_text = number_text
        self.globals = {}        # SHARED vars
        self.consts = {}
        self.statics = {}        # (subname, var) -> storage
        self.frames = []
        self.subs = {}
        for s in prog.subs:
            self.subs[s.name.lower()] = s
        self.cur_line = None
        self.err_line = None
        self.lines = []          # scripted INPUT response lines
        self.exec_lines = []     # lines of executed simple statements
        # lines at which code MUST have executed, in order: every executed
        # simple statement and every evaluation of a non-constant
        # IF/ELSEIF/WHILE/DO/LOOP condition, FOR head, SELECT selector
        self.events = []
        self.exec_count = {}     # id(statement occurrence) -> executions
        self.on_error = None     # None | 'next' | label
        self.in_handler = False
        self.err_code = 0
        self.pending_error = None
        self.main_labels = {}

    # -- storage -----------------------------------------------------
    def _mk_storage(self, name, astype):
        if astype is not None and astype.upper() not in (
                'INTEGER', 'LONG', 'SINGLE', 'DOUBLE', 'STRING'):
            return Rec(self.prog, astype)
        if astype is not None:
            t = {'INTEGER': '%', 'LONG': '&', 'SINGLE': '!', 'DOUBLE': '#',
                 'STRING': '$'}[astype.upper()]
            return Cell(t)
        return Cell(vtype(name))

    def _frame(self):
        return self.frames[-1]

    def lookup(self, name, create=True):
        """Storage object bound to `name` in the current scope."""
        fr = self._frame()
        if name in fr['vars']:
            return fr['vars'][name]
        if name in self.globals:
            return self.globals[name]
        if not create:
            raise KeyError(name)
        if fr['static']:
            key = (fr['name'], name)
            if key not in self.statics:
                self.statics[key] = Cell(vtype(name))
            fr['vars'][name] = self.statics[key]
        else:
            fr['vars'][name] = Cell(vtype(name))
        return fr['vars'][name]

    def lookup_array(self, name, nidx):
        fr = self._frame()
        if name in fr['vars']:
            return fr['vars'][name]
        if name in self.globals:
            return self.globals[name]
        # implicit array 0..10 in every dimension (qbee's documented rule)
        t = vtype(name)
        arr = Arr([(0, 10)] * nidx, lambda: Cell(t))
        fr['vars'][name] = arr
        return arr

    def all_cells(self):
        out = []
        seen = set()

        def walk(o):
            if id(o) in seen:
                return
            seen.add(id(o))
            if isinstance(o, Cell):
                out.append(o)
            elif isinstance(o, Rec):
                for f in o.fields.values():
                    walk(f)
            elif isinstance(o, Arr):
                for e in o.elems.values():
                    walk(e)
        for g in self.globals.values():
            walk(g)
        for s in self.statics.values():
            walk(s)
        for fr in self.frames:
            for v in fr['vars'].values():
                walk(v)
        return out

    # -- lvalues -----------------------------------------------------
    def resolve(self, lv):
        """Returns the Cell / Rec / Arr an lvalue expression denotes."""
        k = lv[0]
        if k == 'var':
            return self.lookup(lv[1])
        if k == 'idx':
            arr = self.lookup_array(lv[1], len(lv[2]))
            idxs = []
            for e in lv[2]:
                t, v = self.eval(e)
                idxs.append(convert(v, t, '&'))
            return self.index(arr, idxs)
        if k == 'fld':
            base = self.resolve(lv[1])
            for f in lv[2]:
                base = base.fields[f]
            return base
        raise ValueError(lv)

    def index(self, arr, idxs):
        if len(idxs) != len(arr.bounds):
            raise ValueError('rank mismatch in spec program')
        key = []
        for i, (lo, hi) in zip(idxs, arr.bounds):
            if i < lo or i > hi:
                raise QBError(SUBSCRIPT)
            # concretise the (bounded) index by explicit case split
            found = None
            for c in range(lo, hi + 1):
                if i == c:
                    found = c
                    break
            key.append(found)
        return arr.elems[tuple(key)]

    # -- expressions -------------------------------------------------
    def eval(self, e):
        k = e[0]
        if k == 'lit':
            if e[1] == '!':
                # a SINGLE literal denotes the nearest binary32 value
                return '!', to_single(float(e[2]))
            return e[1], e[2]
        if k == 'var':
            name = e[1]
            if name in self._frame()['consts']:
                return self._frame()['consts'][name]
            if name in self.consts and name not in self._frame()['vars']:
                return self.consts[name]
            c = self.lookup(name)
            return c.t, c.v
        if k in ('idx', 'fld'):
            c = self.resolve(e)
            return c.t, c.v
        if k == 'bin':
            lt, lv = self.eval(e[2])
            rt, rv = self.eval(e[3])
            return binop(e[1], lt, lv, rt, rv)
        if k == 'un':
            t, v = self.eval(e[2])
            return unop(e[1], t, v)
        if k == 'fn':
            return self.builtin(e[1], e[2])
        if k == 'call':
            return self.call(e[1], e[2], True)
        raise ValueError(e)

    def builtin(self, name, args):
        if name in ('LBOUND', 'UBOUND'):
            arr = self.lookup_array(args[0][1], 1)
            d = 1
            if len(args) > 1:
                t, v = self.eval(args[1])
                d = convert(v, t, '&')
            if d < 1 or d > len(arr.bounds):
                raise QBError(SUBSCRIPT)
            for c in range(1, len(arr.bounds) + 1):
                if d == c:
                    lo, hi = arr.bounds[c - 1]
                    return '&', (lo if name == 'LBOUND' else hi)
        if name == 'ERR':
            return '%', self.err_code
        if name == 'INKEY$':
            return '$', (self.inkeys.pop(0) if self.inkeys else '')
        if name == 'PEEK':
            t, v = self.eval(args[0])
            off = convert(v, t, '&')
            self.trace.append(('memory', 'peek', off))
            return '%', _check('%', self.peeks.pop(0) if self.peeks else 0)
        vals = [self.eval(a) for a in args]
        if name == 'ABS':
            t, v = vals[0]
            return t, _check(t, -v if v < 0 else v)
        if name == 'ASC':
            s = vals[0][1]
            if len(s) == 0:
                raise QBError(ILLEGAL)
            return '%', ord(s[0])
        if name == 'CHR$':
            n = convert(vals[0][1], vals[0][0], '%')
            if n < 0 or n > 255:
                raise QBError(ILLEGAL)
            return '$', bytes([n]).decode('cp437')
        if name == 'CINT':
            return '%', convert(vals[0][1], vals[0][0], '%') \
                if vals[0][0] != '%' else vals[0][1]
        if name == 'CLNG':
            return '&', convert(vals[0][1], vals[0][0], '&') \
                if vals[0][0] != '&' else vals[0][1]
        if name == 'INT':
            t, v = vals[0]
            if t in '!#':
                import math
                v = math.floor(v)
            return '&', _check('&', v)
        if name == 'LEN':
            return '&', len(vals[0][1])
        if name == 'LCASE$':
            return '$', _ascii_lower(vals[0][1])
        if name == 'UCASE$':
            return '$', _ascii_upper(vals[0][1])
        if name == 'LTRIM$':
            return '$', _lstrip(vals[0][1])
        if name == 'RTRIM$':
            return '$', _rstrip(vals[0][1])
        if name == 'LEFT$':
            n = convert(vals[1][1], vals[1][0], '%')
            if n < 0:
                raise QBError(ILLEGAL)
            s = vals[0][1]
            return '$', s[:n]
        if name == 'RIGHT$':
            n = convert(vals[1][1], vals[1][0], '%')
            if n < 0:
                raise QBError(ILLEGAL)
            s = vals[0][1]
            if n == 0:
                return '$', ''
            if n >= len(s):
                return '$', s
            return '$', s[len(s) - n:]
        if name == 'MID$':
            s = vals[0][1]
            st = convert(vals[1][1], vals[1][0], '%')
            ln = None
            if len(vals) > 2:
                ln = convert(vals[2][1], vals[2][0], '%')
            if st <= 0:
                raise QBError(ILLEGAL)
            if ln is not None and ln < 0:
                raise QBError(ILLEGAL)
            if st > len(s):
                return '$', ''
            if ln is None:
                return '$', s[st - 1:]
            return '$', s[st - 1:st - 1 + ln]
        if name == 'INSTR':
            if len(vals) == 3:
                st = convert(vals[0][1], vals[0][0], '&')
                s1, s2 = vals[1][1], vals[2][1]
            else:
                st = 1
                s1, s2 = vals[0][1], vals[1][1]
            if st <= 0:
                raise QBError(ILLEGAL)
            return '&', _instr(st, s1, s2)
        if name == 'SPACE$':
            n = convert(vals[0][1], vals[0][0], '%')
            if n < 0:
                raise QBError(ILLEGAL)
            return '$', ' ' * n
        if name == 'STRING$':
            n = convert(vals[0][1], vals[0][0], '%')
            if n < 0:
                raise QBError(ILLEGAL)
            if vals[1][0] == '$':
                if len(vals[1][1]) == 0:
                    raise QBError(ILLEGAL)
                ch = vals[1][1][0]
            else:
                c = convert(vals[1][1], vals[1][0], '%')
                if c < 0 or c > 255:
                    raise QBError(ILLEGAL)
                ch = bytes([c]).decode('cp437')
            return '$', ch * n
        if name == 'STR$':
            return '$', self.num_text(vals[0][0], vals[0][1], False)
        raise ValueError('builtin %s has no reference semantics' % name)

    def num_text(self, t, v, for_print):
        if self.number_text is not None:
            return self.number_text(t, v)
        if for_print and self.abstract_numbers:
            tok = num_token(t, v)
            if tok is not None:
                return tok
        if t in '%&':
            return int_text(v)
        from qvm.utils import format_number
        from qvm.cell import CellType
        return format_number(v, CellType.SINGLE if t == '!'
                             else CellType.DOUBLE)

    # -- calls -------------------------------------------------------
    def call(self, name, args, is_function):
        sub = self.subs[name.lower()]
        if len(self.frames) > 12:
            raise RefBudget('recursion depth')
        fr = {'name': sub.name.lower(), 'vars': {}, 'consts': {},
              'static': sub.static}
        for (pname, ptype), a in zip(sub.params, args):
            is_arr = pname.endswith('()')
            pn = pname[:-2] if is_arr else pname
            if is_arr:
                fr['vars'][pn] = self.lookup_array(a[1], 1)
            elif a[0] in ('var', 'idx', 'fld') and not self._is_const(a):
                fr['vars'][pn] = self.resolve(a)      # by reference
            else:
                t, v = self.eval(a)
                pt = vtype(pn) if ptype is None else _astype_char(ptype)
                fr['vars'][pn] = Cell(pt, convert(v, t, pt)
                                      if pt != '$' else v)
        ret = None
        if is_function:
            ret = Cell(vtype(sub.name))
            fr['ret'] = ret
        self.frames.append(fr)
        caller_line = self.cur_line
        try:
            try:
                self.block(sub.body)
            except _Exit as x:
                if x.kind not in ('sub', 'function'):
                    raise
            self.cur_line = caller_line
        finally:
            self.frames.pop()
        if is_function:
            return ret.t, ret.v
        return None

    def _is_const(self, a):
        return a[0] == 'var' and (
            a[1] in self._frame()['consts'] or
            (a[1] in self.consts and a[1] not in self._frame()['vars']))

    # -- statements --------------------------------------------------
    def tick(self):
        self.steps += 1
        if self.steps > self.budget:
            raise RefBudget('reference step budget')

    def block(self, body):
        for s in body:
            self.stmt(s)

    def assign(self, lv, t, v):
        c = self.resolve(lv)
        if c.t == '$':
            c.v = v
        else:
            c.v = convert(v, t, c.t)

    def stmt(self, s):
        ln = line_of(self.prog, s)
        while True:
            self.tick()
            saved = self.cur_line
            self.exec_count[id(s)] = self.exec_count.get(id(s), 0) + 1
            if ln is not None:
                self.cur_line = ln
                if s[0] in _SIMPLE_WITH_CODE and not (
                        s[0] == 'dim' and all(d[1] is None for d in s[2])):
                    self.exec_lines.append(ln)
                    self.events.append(ln)
            try:
                self._stmt(s)
                # statements executed by procedures called from this one
                # have moved cur_line; the caller's line is current again
                if saved is not None and len(self.frames) > 1 and False:
                    self.cur_line = saved
                return
            except QBError as e:
                if e.line is None:
                    e.line = ln if ln is not None else self.cur_line
                if self.on_error is None or self.in_handler or \
                        len(self.frames) != 1 or s[0] in (
                            'if', 'for', 'while', 'do', 'select'):
                    # not armed / error inside the handler / not a module
                    # level statement / a block (its inner statement has
                    # already had its chance): propagate
                    raise
                self.err_code = ERR_CODES[e.cls]
                if self.on_error == 'next':
                    return
                self.in_handler = True
                self.pending_error = e
                kind = self.run_handler()
                self.in_handler = False
                if kind == 'next':
                    return
                # 'same': execute the statement again

    def call_gosub(self, label):
        """GOSUB from any nesting depth of the module-level code: run the
        module-level statements from the label until RETURN, then continue
        after the GOSUB statement."""
        if len(self.frames) != 1:
            raise ValueError('GOSUB inside a procedure is not in the spec')
        main = self.prog.main
        i = self.main_labels[label]
        while i < len(main):
            try:
                self.stmt(main[i])
                i += 1
            except _Goto as g:
                i = self.main_labels[g.label]
            except _Return:
                return
        raise _End()

    def run_handler(self):
        main = self.prog.main
        i = self.main_labels[self.on_error] + 1
        while i < len(main):
            try:
                self.stmt(main[i])
            except _Resume as r:
                return r.kind
            i += 1
        raise _End()

    def _stmt(self, s):
        k = s[0]
        if k == 'let':
            t, v = self.eval(s[2])
            self.assign(s[1], t, v)
        elif k == 'setret':
            t, v = self.eval(s[1])
            ret = self._frame()['ret']
            ret.v = v if ret.t == '$' else convert(v, t, ret.t)
        elif k == 'print':
            self.do_print(s[1])
        elif k == 'if':
            for cond, body in s[1]:
                self.cond_event(('ifhead', s, cond), cond)
                try:
                    t, v = self.eval(cond)
                except QBError as e:
                    if e.line is None:
                        # the condition of an ELSEIF fails on its own line
                        e.line = self._line_of_key(('ifhead', s, cond))
                    raise
                if v != 0:
                    self.block(body)
                    return
            if s[2] is not None:
                self.block(s[2])
        elif k == 'if1':
            self.cond_event(s, s[1])
            t, v = self.eval(s[1])
            if v != 0:
                self.block(s[2])
            elif s[3] is not None:
                self.block(s[3])
        elif k == 'for':
            self.do_for(s)
        elif k == 'while':
            while True:
                self.tick()
                self.cond_event(s, s[1])
                t, v = self.eval(s[1])
                if v == 0:
                    break
                self.block(s[2])
        elif k == 'do':
            self.do_loop(s)
        elif k == 'select':
            self.do_select(s)
        elif k == 'exit':
            raise _Exit(s[1])
        elif k == 'goto':
            raise _Goto(s[1])
        elif k == 'gosub':
            self.call_gosub(s[1])
        elif k == 'return':
            raise _Return()
        elif k == 'callsub':
            self.call(s[1], s[2], False)
        elif k == 'dim':
            self.do_dim(s)
        elif k == 'const':
            t, v = self.eval(s[2])
            ct = vtype(s[1]) if s[1][-1] in '%&!#$' else t
            val = (ct, v if ct == '$' else convert(v, t, ct))
            if len(self.frames) == 1:
                self.consts[s[1]] = val
            else:
                self._frame()['consts'][s[1]] = val
        elif k == 'end':
            raise _End()
        elif k == 'beep':
            self.n_beeps += 1
            if self.n_beeps == 1 and self.seeds:
                self.apply_seeds()
            else:
                self.trace.append(('pcspkr', 'beep'))
        elif k == 'input':
            self.do_input(s)
        elif k == 'onerror':
            if s[1] == 0:
                if self.in_handler:
                    # ON ERROR GOTO 0 inside a handler re-raises the error
                    raise QBError(self.pending_error.cls)
                self.on_error = None
            else:
                self.on_error = s[1]
        elif k == 'resume':
            raise _Resume(s[1])
        elif k in ('label', 'lineno', 'raw', 'data'):
            pass
        elif k == 'line':
            self.block(s[1])
        else:
            raise ValueError('statement %s has no reference semantics' % k)

    def cond_event(self, key, *exprs, force=False):
        """Record that code on the line of `key` must execute now -- unless
        every given expression is a compile-time constant (the compiler may
        then emit no instruction for it)."""
        if not force and all(self._is_static_const(e) for e in exprs):
            return
        ln = self._line_of_key(key)
        if ln is not None:
            self.events.append(ln)

    def _line_of_key(self, key):
        for ln, st in self.prog.lines:
            if st is key or (isinstance(key, tuple) and isinstance(st, tuple)
                             and len(st) == len(key) and len(key) >= 2 and
                             st[0] == key[0] and
                             all(a is b for a, b in zip(st[1:], key[1:]))
                             and st[0] in ('ifhead', 'loop', 'next', 'case')):
                return ln
        return None

    def _is_static_const(self, e):
        k = e[0]
        if k == 'lit':
            return True
        if k == 'var':
            return self._is_const(e)
        if k == 'un':
            return self._is_static_const(e[2])
        if k == 'bin':
            return self._is_static_const(e[2]) and \
                self._is_static_const(e[3])
        return False

    def apply_seeds(self):
        n = 0
        for c in self.all_cells():
            key = (c.t, c.v)
            if isinstance(c.v, float):
                continue
            if key in self.seeds:
                c.v = self.seeds[key]
                n += 1
        if n != len(self.seeds):
            raise RuntimeError('reference seeding replaced %d cells, '
                               'expected %d' % (n, len(self.seeds)))

    def do_dim(self, s):
        kind = s[1]
        for name, dims, astype in s[2]:
            if dims is None:
                st = self._mk_storage(name, astype)
            else:
                bounds = []
                for lo, hi in dims:
                    lt, lv = self.eval(lo)
                    ht, hv = self.eval(hi)
                    lo_v, hi_v = convert(lv, lt, '&'), convert(hv, ht, '&')
                    if lo_v > hi_v:
                        raise QBError(SUBSCRIPT)
                    bounds.append((lo_v, hi_v))
                st = Arr(bounds, (lambda n=name, a=astype:
                                  self._mk_storage(n, a)))
            if kind == 'shared':
                self.globals[name] = st
            elif kind == 'static' or self._frame()['static']:
                key = (self._frame()['name'], name)
                if key not in self.statics:
                    self.statics[key] = st
                self._frame()['vars'][name] = self.statics[key]
            else:
                self._frame()['vars'][name] = st

    def do_for(self, s):
        var = s[1]
        self.cond_event(s, force=True)
        vt = etype(var, self.prog)
        if s[4] is not None:
            t, v = self.eval(s[4])
            step = convert(v, t, vt)
        else:
            step = 1
        t, v = self.eval(s[2])
        start = convert(v, t, vt)
        self.assign(var, vt, start)
        t, v = self.eval(s[3])
        limit = convert(v, t, vt)
        while True:
            self.tick()
            cur = self.resolve(var).v
            if step >= 0:
                if cur > limit:
                    break
            else:
                if cur < limit:
                    break
            try:
                self.block(s[5])
            except _Exit as x:
                if x.kind == 'for':
                    break
                raise
            cur = self.resolve(var).v
            try:
                self.assign(var, vt, _check(vt, cur + step))
            except QBError as e:
                # the increment belongs to the NEXT statement
                e.line = None
                for ln, t in self.prog.lines:
                    if isinstance(t, tuple) and len(t) == 2 and \
                            t[0] == 'next' and t[1] is s:
                        e.line = ln
                raise

    def do_loop(self, s):
        kind, cond, body = s[1], s[2], s[3]
        while True:
            self.tick()
            if kind in ('do_while', 'do_until'):
                self.cond_event(s, cond)
                t, v = self.eval(cond)
                c = v != 0
                if (kind == 'do_while' and not c) or \
                        (kind == 'do_until' and c):
                    break
            try:
                self.block(body)
            except _Exit as x:
                if x.kind == 'do':
                    break
                raise
            if kind in ('loop_while', 'loop_until'):
                self.cond_event(('loop', s), cond)
                t, v = self.eval(cond)
                c = v != 0
                if (kind == 'loop_while' and not c) or \
                        (kind == 'loop_until' and c):
                    break

    def do_select(self, s):
        self.cond_event(s, s[1])
        st, sv = self.eval(s[1])
        for clauses, body in s[2]:
            hit = False
            for c in clauses:
                if c[0] == 'eq':
                    t, v = self.eval(c[1])
                    r = binop('=', st, sv, st, v if st == '$'
                              else convert(v, t, st))[1]
                elif c[0] == 'is':
                    t, v = self.eval(c[2])
                    r = binop(c[1], st, sv, st, v if st == '$'
                              else convert(v, t, st))[1]
                else:
                    t1, v1 = self.eval(c[1])
                    t2, v2 = self.eval(c[2])
                    a = v1 if st == '$' else convert(v1, t1, st)
                    b = v2 if st == '$' else convert(v2, t2, st)
                    r = -1 if (binop('>=', st, sv, st, a)[1] != 0 and
                               binop('<=', st, sv, st, b)[1] != 0) else 0
                if r != 0:
                    hit = True
                    # NB: QBASIC evaluates clauses left to right and stops
                    # at the first match; later clauses are not evaluated
                    break
            if hit:
                self.block(body)
                return
        if s[3] is not None:
            self.block(s[3])

    def do_input(self, s):
        from props.ob_units import ref_input_line
        prompt, sep, lvs = s[1], s[2], s[3]
        ptext = prompt if prompt is not None else ''
        question = prompt is None or sep == ';'
        types = [etype(lv, self.prog) for lv in lvs]
        while True:
            self.tick()
            self.trace.append(('terminal', 'print', ptext))
            if question:
                self.trace.append(('terminal', 'print', '? '))
            self.trace.append(('terminal', 'input', 0))
            if not self.lines:
                raise RefBudget('input script exhausted')
            line = self.lines.pop(0)
            vals = ref_input_line(line, types)
            if vals is not None:
                break
            self.trace.append(('terminal', 'print', 'Redo from start\r\n'))
        for lv, t, v in zip(lvs, types, vals):
            self.assign(lv, t, v)

    def do_print(self, items):
        buf = Rope([])
        for it in items:
            if it == ';':
                continue
            if it == ',':
                n = 14 - (len(buf) % 14)
                buf = buf + ' ' * n
                continue
            t, v = self.eval(it)
            if t == '$':
                buf = buf + v
            else:
                buf = buf + self.num_text(t, v, True) + ' '
        if not items or items[-1] not in (';', ','):
            buf = buf + '\r\n'
        self.trace.append(('terminal', 'print', buf))

    # -- program -----------------------------------------------------
    def run(self):
        """Returns ('end', None) or ('error', class); fills self.trace and
        self.err_line."""
        main = self.prog.main
        labels = {}
        for i, s in enumerate(main):
            if s[0] in ('label', 'lineno'):
                labels[s[1]] = i
        self.main_labels = labels
        self.frames = [{'name': '_main', 'vars': {}, 'consts': {},
                        'static': False}]
        gosubs = []
        i = 0
        try:
            while i < len(main):
                s = main[i]
                try:
                    self.stmt(s)
                    i += 1
                except _Goto as g:
                    i = labels[g.label]
                except _Gosub as g:
                    gosubs.append(i + 1)
                    i = labels[g.label]
                except _Return:
                    if not gosubs:
                        raise ValueError('RETURN without GOSUB in spec')
                    i = gosubs.pop()
            return ('end', None)
        except _End:
            return ('end', None)
        except QBError as e:
            self.err_line = e.line
            return ('error', e.cls)


def _astype_char(astype):
    return {'INTEGER': '%', 'LONG': '&', 'SINGLE': '!', 'DOUBLE': '#',
            'STRING': '$'}[astype.upper()]


def _ascii_lower(s):
    out = ''
    for ch in s:
        o = ord(ch)
        out += chr(o + 32) if 65 <= o <= 90 else ch
    return out


def _ascii_upper(s):
    out = ''
    for ch in s:
        o = ord(ch)
        out += chr(o - 32) if 97 <= o <= 122 else ch
    return out


def _lstrip(s):
    i = 0
    while i < len(s) and s[i] == ' ':
        i += 1
    return s[i:]


def _rstrip(s):
    j = len(s)
    while j > 0 and s[j - 1] == ' ':
        j -= 1
    return s[:j]


def _instr(st, s1, s2):
    """1-based position of the first occurrence of s2 in s1 at or after
    st, else 0.  (s2 == '' is excluded by harness preconditions.)"""
    n1, n2 = len(s1), len(s2)
    p = st - 1
    while p + n2 <= n1:
        if s1[p:p + n2] == s2:
            return p + 1
        p += 1
    return 0
