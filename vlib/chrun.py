#!/usr/bin/env python
"""Driver run inside /verif/.venv.

  chrun.py check <crosshair check args...>   run CrossHair with adaptations
  chrun.py replay <module> <func> <kwargs-json-or-repr>
                                            call an obligation natively
"""
import json
import os
import sys

VERIF = os.path.dirname(os.path.dirname(os.path.abspath(__file__)))
if VERIF not in sys.path:
    sys.path.insert(0, VERIF)
os.chdir(VERIF)

from vlib import striplog  # noqa: E402

striplog.install()


def main(argv):
    if argv[0] == 'check':
        from vlib import chfix
        chfix.install()
        err = chfix.validate_int_model() or chfix.validate_float_model() \
            or chfix.validate_numeral_model()
        if err:
            print('HARNESS-ERROR: ' + err)
            return 3
        from crosshair.main import unwalled_main
        sys.setrecursionlimit(10000)
        return unwalled_main(['check'] + argv[1:])
    if argv[0] == 'replay':
        import importlib
        modname, funcname, argsrc = argv[1], argv[2], argv[3]
        mod = importlib.import_module(modname)
        fn = getattr(mod, funcname)
        ns = dict(getattr(mod, 'REPLAY_NS', {}))
        ns['_cap'] = lambda *a, **k: (a, k)
        args, kwargs = eval('_cap(%s)' % argsrc, {'__builtins__': {
            'dict': dict, 'float': float, 'int': int, 'str': str,
            'True': True, 'False': False, 'None': None}}, ns)
        out = {}
        try:
            r = fn(*args, **kwargs)
            out['returned'] = repr(r)
            out['ok'] = bool(r)
            out['code'] = r if isinstance(r, int) else None
        except BaseException as e:  # noqa
            out['raised'] = '%s: %s' % (type(e).__name__, e)
            out['ok'] = False
        print('REPLAY-RESULT ' + json.dumps(out))
        return 0
    print('usage: chrun.py check|replay ...')
    return 2


if __name__ == '__main__':
    sys.exit(main(sys.argv[1:]))
